"""Which programs of family F each tier runs (a stated bound over *programs*; data are unbounded)."""
from __future__ import annotations

from t2.family import KINDS, QUICK, EOF_KINDS, SINGLE_ONLY, Program, enumerate_programs, sample_programs, valid_sequence

# kinds whose symbolic execution is expensive (nested data-dependent loops): only alone or with cheap partners
HEAVY = {"z_uleb", "d_inner", "b64", "z_i24", "d_i24", "a_inner_2", "dyn", "d_expr", "d_expr2", "d_blk", "d_blk2", "d_pnode"}
REJECTED = {"b8_roll"}  # straddling bit-field: must be refused at definition time (checked under C06)
CHEAP_PARTNERS = ["u8", "u32", "i24"]


ALIGN16 = {"i128", "u128"}


def _dynamic(k):
    return k in ("uleb", "ileb", "dyn") or k.startswith(("d_", "z_"))


def singles(endians=("<", ">"), aligns=(False, True), kinds=None):
    out = []
    for k in kinds or KINDS:
        if k in REJECTED:
            continue
        for e in endians:
            for a in aligns:
                out.append(Program([k], e, a))
    return out


def pairs(alphabet, endians=("<", ">"), aligns=(False, True), skip_heavy_aligned=False):
    out = []
    for a_ in alphabet:
        for b_ in alphabet:
            if not valid_sequence((a_, b_)):
                continue
            if a_ in HEAVY and b_ in HEAVY:
                continue
            if (a_ in HEAVY and b_ not in CHEAP_PARTNERS) or (b_ in HEAVY and a_ not in CHEAP_PARTNERS):
                continue
            for e in endians:
                for al in aligns:
                    if skip_heavy_aligned and al and (a_ in HEAVY or b_ in HEAVY):
                        continue
                    if skip_heavy_aligned and al and ((a_ in ALIGN16 and _dynamic(b_)) or (b_ in ALIGN16 and _dynamic(a_))):
                        continue  # 16-way padding split after a member of symbolic length: near the per-case budget, thorough tier only
                    out.append(Program([a_, b_], e, al))
    return out


REDUCED = ["u8", "u16", "i32", "u64", "i24", "u48", "f32", "char", "wchar", "e8", "ptr", "a_u16_3", "a_char_4", "d_u16", "d_char",
           "z_char", "inner", "anon_s", "b16_full", "b8_part", "b32_sw8", "b16_sw8_2"]


DYNAMIC_UNIONS = [["d_char", "u16"], ["d_u16", "u32"], ["u8", "d_char"], ["u32", "z_char"]]


# fixed-size unions for the round-trip pipelines (the member-coherence clauses live in C11): ties between an anonymous
# struct with holes (padding, partly used bit-field unit) and a plain member, in both declaration orders
FIXED_UNIONS = [["anon_s", "u32"], ["u32", "anon_s"], ["anon_bits", "u16"], ["u16", "anon_bits"], ["a_u16_3", "u32", "u8"], ["named_s", "u16"],
                ["anon_s32", "anon_s3", "u16"], ["anon_s3", "anon_s32", "u8"]]


def dynamic_unions():
    return [Program(m, e, a, union=True) for m in DYNAMIC_UNIONS + FIXED_UNIONS for e in ("<", ">") for a in (False, True)]


def sandwiches():
    """A partially filled bit-field unit, another member, bit fields of the same storage type again: every state the
    readers/writers carry across a member boundary (k, q, k)."""
    ps = []
    i = 0
    for k in ("b8_part", "b16_part"):
        for q in ("inner", "anon_s", "named_u", "u8", "d_char", "a_u16_3", "e8", "b8_whole", "b32_whole", "bf32_whole", "bi8", "z_char", "uleb", "a_u8_0", "void"):
            for al in (False, True):
                ps.append(Program([k, q, k], "<>"[i % 2], al))
                i += 1
    return ps


def after_dynamic():
    """A member of symbolic length followed by a block of static members (aligned and packed): everything the readers
    assume about the position after a dynamic member."""
    ps = []
    i = 0
    for seq in (["d_char", "a_char_4", "u32"], ["d_char", "u8", "u32"], ["d_u16", "a_u16_3", "u64"], ["z_char", "a_char_4", "u16"],
                ["d_char", "i24", "u16"], ["uleb", "a_char_4", "u32"], ["d_char", "b8_sw32"], ["d_char", "b16_sw8_2", "u32"]):
        for al in (False, True):
            ps.append(Program(seq, "<>"[i % 2], al))
            i += 1
    return ps


def reduced_programs(seed=0, sample=24):
    """Smaller quick set for the multi-run pipelines: every kind alone (both byte orders, both modes), ordered pairs of
    the reduced alphabet in both modes with the byte order alternating, a few seeded longer sequences."""
    ps = singles() + dynamic_unions() + sandwiches() + after_dynamic()
    i = 0
    for a_ in REDUCED:
        for b_ in REDUCED:
            if not valid_sequence((a_, b_)) or (a_ in HEAVY and b_ in HEAVY):
                continue
            for al in (False, True):
                if al and (a_ in HEAVY or b_ in HEAVY):
                    continue
                ps.append(Program([a_, b_], "<>"[i % 2], al))
                i += 1
    light = [k for k in KINDS if k not in HEAVY and k not in REJECTED and k not in EOF_KINDS and k not in SINGLE_ONLY]
    ps += [p for p in sample_programs(light, sample, 3, 4, seed) if _quick_ok(p)]
    return dedupe(ps)


def quick_programs(seed=0, sample=40):
    """Quick tier of the relational check: every kind alone (both byte orders, both modes), every ordered pair of the quick
    alphabet in both modes with the byte order alternating between pairs, seeded longer sequences."""
    ps = singles() + dynamic_unions() + sandwiches() + after_dynamic()
    for i, p in enumerate(pairs(QUICK, endians=("<",), skip_heavy_aligned=True)):
        ps.append(p if (i // 2) % 2 == 0 else Program(p.kinds, ">", p.align))
    light = [k for k in KINDS if k not in HEAVY and k not in REJECTED and k not in EOF_KINDS and k not in SINGLE_ONLY]
    ps += [p for p in sample_programs(light, sample, 3, 4, seed) if _quick_ok(p)]
    return dedupe(ps)


def thorough_programs(seed=0, sample=150):
    """Thorough tier: the quick set, all ordered pairs of the quick alphabet under both byte orders, every kind paired with
    the cheap partners in both orders, seeded sequences of 3-6 kinds. Combinations known to sit at the per-case budget
    (aligned definitions with a heavy kind, or a 16-aligned member next to a member of symbolic length) are left to the
    single-kind programs, as in the quick tier."""
    alpha = [k for k in KINDS if k not in REJECTED and k not in SINGLE_ONLY]
    ps = quick_programs(seed) + pairs(QUICK, skip_heavy_aligned=True)
    for k in alpha:
        for q in CHEAP_PARTNERS + ["d_char"]:
            for seq in ((k, q), (q, k)):
                if valid_sequence(seq) and not (k in HEAVY and q in HEAVY):
                    for e in ("<", ">"):
                        for al in (False, True):
                            if al and (k in HEAVY or q in HEAVY or (k in ALIGN16 and _dynamic(q)) or (q in ALIGN16 and _dynamic(k))):
                                continue
                            ps.append(Program(list(seq), e, al))
    light = [k for k in KINDS if k not in HEAVY and k not in REJECTED and k not in EOF_KINDS and k not in SINGLE_ONLY]
    ps += [p for p in sample_programs(light, sample, 3, 6, seed) if _quick_ok(p)]
    return dedupe(ps)


LEB_KINDS = {"uleb", "ileb", "z_uleb"}


def _quick_ok(p):
    """Quick tier: leave out sampled sequences whose symbolic run is known to exceed the per-case budget (aligned
    definitions with a LEB128 member among three or more kinds: the padding after a value of symbolic length is split
    into up to 16 cases per later member). They stay in the thorough tier."""
    if p.align and any(k in ALIGN16 for k in p.kinds) and any(_dynamic(k) for k in p.kinds):
        return False
    return not (p.align and len(p.kinds) > 2 and any(k in LEB_KINDS for k in p.kinds))


NESTING_KINDS = {"inner", "anon_s", "named_s", "anon_u", "named_u", "a_inner_2", "dyn", "d_inner", "anon_bits", "anon_s32", "anon_s3", "same_hdr", "ptrs", "pnode", "a_pnode_2", "d_pnode"}


def flat_aligned(ps):
    """Aligned, non-union programs made of scalars and arrays of scalars only (no nested structure, no bit-field)."""
    return [p for p in ps if p.align and not p.union and not any(k in BIT_KINDS or k in NESTING_KINDS for k in p.kinds)]


def dedupe(ps):
    seen = set()
    out = []
    for p in ps:
        k = p.key()
        if k not in seen:
            seen.add(k)
            out.append(p)
    return out


def select(ps, pred):
    return [p for p in ps if pred(p)]


BIT_KINDS = {k for k in KINDS if k.startswith("b") and k[1:2].isdigit() or k in ("bi8", "be8", "bf32_whole", "bc8", "bcc", "bi16_whole", "be16s_whole")}
ARRAY_KINDS = {k for k in KINDS if k.startswith(("a_", "d_", "z_", "eof_", "a2d"))}
PTR_KINDS = {"ptr", "ptrs", "a_ptr_2", "pnode", "a_pnode_2", "d_pnode"}


def focused_programs(kinds, seed=0, partners=("u8", "u32", "i24", "char"), tier="quick", sandwich=()):
    """Every kind of `kinds` alone and paired (both orders) with a few cheap partners; x endian x mode."""
    ps = []
    for k in kinds:
        if k in REJECTED:
            continue
        for e in ("<", ">"):
            for a in (False, True):
                ps.append(Program([k], e, a))
    i = 0
    for k in kinds:
        if k in REJECTED:
            continue
        for q in partners:
            for seq in ((k, q), (q, k)):
                if not valid_sequence(seq):
                    continue
                for a in (False, True):
                    if tier == "quick" and a and (k in HEAVY or k in EOF_KINDS):
                        continue  # expensive aligned combinations: thorough tier only
                    if tier == "quick" and k in HEAVY and q != partners[0]:
                        continue
                    ps.append(Program(list(seq), "<>"[i % 2], a))
                    i += 1
    # a run of the kind, interrupted by another member, resumed (k, q, k): state carried across the interruption
    for k in kinds:
        if k in REJECTED or k in HEAVY or k in EOF_KINDS:
            continue
        for q in sandwich:
            for a in (False, True):
                ps.append(Program([k, q, k], "<>"[i % 2], a))
                i += 1
    if tier != "quick":
        for k in kinds:
            for q in kinds:
                if k in REJECTED or q in REJECTED or not valid_sequence((k, q)) or (k in HEAVY and q in HEAVY):
                    continue
                for a in (False, True):
                    ps.append(Program([k, q], "<>"[i % 2], a))
                    i += 1
    return dedupe(ps)
