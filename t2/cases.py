"""Per-definition (T2) cases: the real reader/writer text of a concrete class on symbolic data."""
from __future__ import annotations

import io
import json
import traceback

import z3

from pyvc.ctx import Infeasible, PyRaise
from pyvc.harness import Case, model_bytes, model_value
from pyvc.interp import Interp
from pyvc.models import deep_eq, _norm
from pyvc.stream import SymStream
from pyvc.sym import SArr, SBytes, SEnum, SFloat, SPtr, SStr, Seg, Unsupported, is_z3, strip, zint
from t2.family import Program

UNROLL = 2  # bound for symbolic-length arrays of composite/Int elements (stated in evidence)


def summaries():
    from contracts import loops

    return loops.t2_summaries()


def outcome(interp, f, args):
    """Run f; return ('ok', value) or ('raise', cls)."""
    try:
        return ("ok", interp.call(f, args))
    except PyRaise as e:
        return ("raise", e.cls)


def value_repr(v, model=None, depth=0):
    """JSON-able description of a (possibly symbolic) value, concretised by a model when given."""
    from dissect.cstruct.types.structure import StructureMetaType

    if depth > 6:
        return "..."
    if isinstance(v, (SEnum, SPtr)):
        return {"cls": v.cls.__name__, "value": value_repr(v.value, model, depth + 1)}
    if isinstance(v, SBytes):
        return model_bytes(model, v).hex() if model is not None else repr(v)
    if isinstance(v, SStr):
        return {"utf16": value_repr(v.raw, model, depth + 1), "endian": v.endian}
    if isinstance(v, SFloat):
        return {"float_bits": value_repr(v.bits, model, depth + 1), "width": v.width}
    if isinstance(v, SArr):
        return {"array_raw": value_repr(v.raw, model, depth + 1), "count": value_repr(v.count, model, depth + 1)}
    if is_z3(v):
        return model_value(model, v) if model is not None else str(v)
    if isinstance(v, (list, tuple)):
        return [value_repr(x, model, depth + 1) for x in v]
    if isinstance(v, dict):
        return {str(k): value_repr(x, model, depth + 1) for k, x in v.items()}
    if isinstance(type(v), StructureMetaType):
        return {name: value_repr(getattr(v, name, None), model, depth + 1) for name in type(v).fields}
    if isinstance(v, (bytes, bytearray)):
        return bytes(v).hex()
    if isinstance(v, (int, str, bool, float)) or v is None:
        return v
    return repr(v)


class T2Case(Case):
    """Base: loads the program (compiled and interpreted classes) once per process run."""

    timeout_ms = 20000
    max_paths = 4000

    def __init__(self, prog_json):
        self.prog = Program.from_json(prog_json)
        self.name = f"{self.kind}:{self.prog.key()}"
        self._cs = {}

    def cls(self, compiled):
        if compiled not in self._cs:
            self._cs[compiled] = self.prog.load(compiled)
        return self._cs[compiled].T

    def interp(self, ctx):
        return Interp(ctx, summaries=summaries(), unroll=UNROLL)

    def new_input(self, ctx, aligned_start=True):
        """Symbolic input buffer D (function view D_at, length L) and start position p."""
        D = SBytes.fresh("D")
        T = self.cls(False)
        a = (T.alignment or 1) if (self.prog.align and aligned_start) else 1
        if a > 1:
            # aligned structures are parsed at aligned positions (C09's premise): p = a*k syntactically,
            # so that alignment arithmetic on p simplifies
            k = z3.Int("p_units")
            ctx.assume(k >= 0)
            p = a * k
        else:
            p = z3.Int("p")
            ctx.assume(p >= 0)
        ctx.case_inputs["D"] = D
        ctx.case_inputs["p"] = p
        return D, p


def eq_values(interp, a, b):
    """Equality of parse results coming from two cstruct objects holding the same definitions: class
    objects differ by identity, so structures/enums/pointers are compared by class *name* and content."""
    from dissect.cstruct.types.structure import StructureMetaType, UnionMetaType

    if isinstance(a, (SEnum, SPtr)) or isinstance(b, (SEnum, SPtr)):
        if type(a) is not type(b) or a.cls.__name__ != b.cls.__name__:
            return False
        return deep_eq(interp, a.value, b.value)
    if isinstance(type(a), StructureMetaType) or isinstance(type(b), StructureMetaType):
        if not (isinstance(type(a), StructureMetaType) and isinstance(type(b), StructureMetaType)):
            return False
        if type(a).__name__ != type(b).__name__ or list(type(a).fields) != list(type(b).fields):
            return False
        r = True
        for name in type(a).fields:
            e = eq_values(interp, getattr(a, name), getattr(b, name))
            if e is False:
                return False
            r = interp._and(r, e)
        return r
    if isinstance(a, (list, tuple)) and isinstance(b, (list, tuple)):
        if len(a) != len(b) or (type(a).__name__ != type(b).__name__):
            return False
        r = True
        for x, y in zip(a, b):
            e = eq_values(interp, x, y)
            if e is False:
                return False
            r = interp._and(r, e)
        return r
    if isinstance(a, dict) and isinstance(b, dict):
        if a.keys() != b.keys():
            return False
        r = True
        for k in a:
            e = eq_values(interp, a[k], b[k])
            if e is False:
                return False
            r = interp._and(r, e)
        return r
    if not is_z3(a) and not is_z3(b) and not isinstance(a, (SBytes, SStr, SFloat, SArr)) and not isinstance(b, (SBytes, SStr, SFloat, SArr)):
        if type(a).__name__ != type(b).__name__ and not (isinstance(a, (int, bytes, str, float)) and isinstance(b, (int, bytes, str, float))):
            return False
    return deep_eq(interp, a, b)


def native_equiv(a, b):
    """Same comparison on native values (replay side)."""
    import enum

    from dissect.cstruct.types.structure import Structure

    if isinstance(a, Structure) or isinstance(b, Structure):
        if not (isinstance(a, Structure) and isinstance(b, Structure)):
            return False
        if type(a).__name__ != type(b).__name__ or list(type(a).fields) != list(type(b).fields):
            return False
        return all(native_equiv(getattr(a, n), getattr(b, n)) for n in type(a).fields)
    if isinstance(a, (list, tuple)) and isinstance(b, (list, tuple)):
        return type(a).__name__ == type(b).__name__ and len(a) == len(b) and all(native_equiv(x, y) for x, y in zip(a, b))
    if type(a).__name__ != type(b).__name__:
        return False
    if isinstance(a, enum.Enum):
        return a.value == b.value and a.name == b.name
    if isinstance(a, float):
        import struct as _s

        return _s.pack("<d", a) == _s.pack("<d", b)
    if isinstance(a, int):
        return int(a) == int(b)
    if isinstance(a, (bytes, str)):
        return bytes(a) == bytes(b) if isinstance(a, bytes) else str(a) == str(b)
    return a == b


def sizes_of(obj):
    return getattr(obj, "_sizes", None)


class RelCompiledInterpreted(T2Case):
    """C03: compiled reader == interpreted reader on every input (translation validation per program)."""

    kind = "C03rel"
    functions = ["dissect/cstruct/types/structure.py:StructureMetaType._read", "<generated>._read (compiler.py:_ReadSourceGenerator)"]

    def body(self, ctx):
        Ti, Tc = self.cls(False), self.cls(True)
        D, p = self.new_input(ctx)
        it = self.interp(ctx)
        s1 = SymStream(ctx, D, p, name="si")
        o1 = outcome(it, Ti._read, [s1])
        s2 = SymStream(ctx, D, p, name="sc")
        o2 = outcome(it, Tc._read, [s2])
        ctx.cover("reach")
        if o1[0] == "ok" and o2[0] == "ok":
            ctx.prove("values-equal", eq_values(it, o1[1], o2[1]), info="field values")
            ctx.prove("pos-equal", ctx.eq(s1.pos, s2.pos), info="consumed bytes")
            z1, z2 = sizes_of(o1[1]), sizes_of(o2[1])
            # "equal recorded sizes for every field that occupies bytes": an entry that is missing on one
            # side must be 0 on the other (void members, zero-length arrays)
            if isinstance(z1, dict) and isinstance(z2, dict):
                z1f = {k: z1.get(k, 0) for k in set(z1) | set(z2)}
                z2f = {k: z2.get(k, 0) for k in set(z1) | set(z2)}
            else:
                z1f, z2f = z1, z2
            ctx.prove("sizes-equal", eq_values(it, z1f, z2f), info=f"_sizes keys {sorted(z1) if z1 is not None else None} vs {sorted(z2) if z2 is not None else None}")
        elif o1[0] == "raise" and o2[0] == "raise":
            # both refuse the input: only end-of-input style refusals may differ in class
            ok = o1[1] is o2[1] or {o1[1].__name__, o2[1].__name__} <= {"EOFError", "error"}
            ctx.prove("same-refusal", ok, info=f"{o1[1].__name__} vs {o2[1].__name__}")
        else:
            # one returns, the other refuses: a contradiction
            which = "interpreted" if o1[0] == "ok" else "compiled"
            exc = (o2 if o1[0] == "ok" else o1)[1].__name__
            ctx.prove("no-contradiction", False, info=f"{which} returns, other raises {exc}")

    def native(self, inputs):
        return native_rel(self.prog, inputs)


def native_rel(prog, inputs):
    data = bytes.fromhex(inputs["D"])
    p = inputs["p"]
    res = {}
    for compiled in (False, True):
        T = prog.load(compiled).T
        s = io.BytesIO(data)
        s.seek(p)
        try:
            v = T._read(s)
            res[compiled] = ("ok", v, s.tell(), dict(v._sizes))
        except Exception as e:  # noqa: BLE001
            res[compiled] = ("raise", type(e).__name__, str(e)[:100])
    a, b = res[False], res[True]
    same = False
    if a[0] == b[0] == "ok":
        ks = set(a[3]) | set(b[3])
        same = native_equiv(a[1], b[1]) and a[2] == b[2] and all(a[3].get(k, 0) == b[3].get(k, 0) for k in ks)
    elif a[0] == b[0] == "raise":
        same = a[1] == b[1] or {a[1], b[1]} <= {"EOFError", "error"}
    obs = {
        "interpreted": (a[0], repr(a[1]), *a[2:]) if a[0] == "ok" else a,
        "compiled": (b[0], repr(b[1]), *b[2:]) if b[0] == "ok" else b,
    }
    return {"reproduced": not same, "observed": json.loads(json.dumps(obs, default=str))}


def make_rel(prog_json):
    return RelCompiledInterpreted(prog_json)
