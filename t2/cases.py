"""Per-definition (T2) cases: the real reader/writer text of a concrete class on symbolic data."""
from __future__ import annotations

import io
import json
import traceback

import z3

from pyvc.ctx import Infeasible, PyRaise
from pyvc.harness import Case, model_bytes, model_value
from pyvc.interp import Interp
from pyvc.models import deep_eq, _norm
from pyvc.stream import SymStream
from pyvc.sym import SArr, SBytes, SEnum, SFloat, SPtr, SStr, Seg, Unsupported, is_z3, strip, zint
from t2.family import Program

UNROLL = 2  # bound for symbolic-length arrays of composite/Int elements (stated in evidence)


def summaries():
    from contracts import loops

    return loops.t2_summaries()


def outcome(interp, f, args):
    """Run f; return ('ok', value) or ('raise', cls)."""
    try:
        return ("ok", interp.call(f, args))
    except PyRaise as e:
        return ("raise", e.cls)


def value_repr(v, model=None, depth=0):
    """JSON-able description of a (possibly symbolic) value, concretised by a model when given."""
    from dissect.cstruct.types.structure import StructureMetaType

    if depth > 6:
        return "..."
    if isinstance(v, (SEnum, SPtr)):
        return {"cls": v.cls.__name__, "value": value_repr(v.value, model, depth + 1)}
    if isinstance(v, SBytes):
        return model_bytes(model, v).hex() if model is not None else repr(v)
    if isinstance(v, SStr):
        return {"utf16": value_repr(v.raw, model, depth + 1), "endian": v.endian}
    if isinstance(v, SFloat):
        return {"float_bits": value_repr(v.bits, model, depth + 1), "width": v.width}
    if isinstance(v, SArr):
        return {"array_raw": value_repr(v.raw, model, depth + 1), "count": value_repr(v.count, model, depth + 1)}
    if is_z3(v):
        return model_value(model, v) if model is not None else str(v)
    if isinstance(v, (list, tuple)):
        return [value_repr(x, model, depth + 1) for x in v]
    if isinstance(v, dict):
        return {str(k): value_repr(x, model, depth + 1) for k, x in v.items()}
    if isinstance(type(v), StructureMetaType):
        return {name: value_repr(getattr(v, name, None), model, depth + 1) for name in type(v).fields}
    if isinstance(v, (bytes, bytearray)):
        return bytes(v).hex()
    if isinstance(v, (int, str, bool, float)) or v is None:
        return v
    return repr(v)


class T2Case(Case):
    """Base: loads the program (compiled and interpreted classes) once per process run."""

    timeout_ms = 20000
    max_paths = 4000

    def __init__(self, prog_json):
        self.prog = Program.from_json(prog_json)
        self.name = f"{self.kind}:{self.prog.key()}"
        self._cs = {}

    def cls(self, compiled):
        if compiled not in self._cs:
            self._cs[compiled] = self.prog.load(compiled)
        return self._cs[compiled].T

    def load_or_reject(self, ctx):
        """Load both variants. A definition may only be refused for a straddling bit-field (ValueError), and only when
        the reference layout says the same. Returns False when the program is (rightly or wrongly) refused."""
        from specs import layout

        try:
            self.cls(False)
            self.cls(True)
            return True
        except Exception as e:  # noqa: BLE001
            ref_straddle = _reference_straddles(self.prog)
            ok = isinstance(e, ValueError) and "traddle" in str(e) and ref_straddle
            ctx.prove("C06/definition-accepted-or-straddle-refused", ok,
                      info=f"definition refused with {type(e).__name__}: {str(e)[:80]}; reference says straddle={ref_straddle}")
            return False

    def interp(self, ctx):
        return Interp(ctx, summaries=summaries(), unroll=UNROLL)

    STANDIN_BOUND = ("inputs of every length 0..48 and 64, 300, 700 bytes x 7 byte patterns (small values, random, 0xff-heavy, UTF-16 surrogate pairs LE/BE at even/odd offsets) x start "
                     "offsets {0, 3 or 16}, seeded by the case name")

    def standin(self):
        """Bounded native check of the same clauses (this case's native replay used as the oracle), run only when the
        symbolic run of this case was left undecided."""
        import random
        import zlib

        if type(self).native is Case.native:
            return None
        rnd = random.Random(zlib.crc32(self.name.encode()))
        fails = []
        n = 0
        off = 16 if self.prog.align else 3
        for ln in list(range(0, 49)) + [64, 300, 700]:
            for pat in range(7):
                if pat == 0:
                    body = bytes(rnd.choice((0, 1, 2, 3)) for _ in range(ln))
                elif pat == 1:
                    body = bytes(rnd.randrange(256) for _ in range(ln))
                elif pat == 2:
                    body = bytes(rnd.choice((0xFF, 0xFF, 0x80, 0x7F, 2)) for _ in range(ln))
                else:
                    # UTF-16 surrogate pairs (little / big endian), at even and odd offsets
                    unit = (0x3D, 0xD8, 0x00, 0xDC) if pat in (3, 5) else (0xD8, 0x3D, 0xDC, 0x00)
                    body = (b"\x02" if pat >= 5 else b"") + bytes(unit[i % 4] for i in range(ln))
                    body = body[:ln]
                for p in (0, off):
                    inputs = {"D": (bytes(rnd.randrange(256) for _ in range(p)) + body).hex(), "p": p}
                    n += 1
                    try:
                        r = self.native(inputs)
                    except Exception as e:  # noqa: BLE001
                        r = {"reproduced": None, "observed": f"oracle crashed: {type(e).__name__}: {e}"}
                    if r and r.get("reproduced") and len(fails) < 3:
                        fails.append({"id": f"len{ln}-pat{pat}-p{p}", "inputs": inputs, "observed": r.get("observed")})
        return {"name": f"standin:{self.name}", "bound": self.STANDIN_BOUND, "evaluations": n, "distinct": n, "failures": fails}

    def new_input(self, ctx, aligned_start=True):
        """Symbolic input buffer D (function view D_at, length L) and start position p."""
        D = SBytes.fresh("D")
        T = self.cls(False)
        a = (T.alignment or 1) if (self.prog.align and aligned_start) else 1
        if a > 1:
            # aligned structures are parsed at aligned positions (C09's premise): p = a*k syntactically,
            # so that alignment arithmetic on p simplifies
            k = z3.Int("p_units")
            ctx.assume(k >= 0)
            p = a * k
        else:
            p = z3.Int("p")
            ctx.assume(p >= 0)
        ctx.case_inputs["D"] = D
        ctx.case_inputs["p"] = p
        return D, p


def eq_values(interp, a, b):
    """Equality of parse results coming from two cstruct objects holding the same definitions: class
    objects differ by identity, so structures/enums/pointers are compared by class *name* and content."""
    from dissect.cstruct.types.structure import StructureMetaType, UnionMetaType

    # members of a union that are structures are handed out through UnionProxy: compare what they stand for
    while type(a).__name__ == "UnionProxy":
        a = object.__getattribute__(a, "__target__")
    while type(b).__name__ == "UnionProxy":
        b = object.__getattribute__(b, "__target__")
    if isinstance(a, (SEnum, SPtr)) or isinstance(b, (SEnum, SPtr)):
        if type(a) is not type(b) or a.cls.__name__ != b.cls.__name__:
            return False
        return deep_eq(interp, a.value, b.value)
    if isinstance(type(a), StructureMetaType) or isinstance(type(b), StructureMetaType):
        if not (isinstance(type(a), StructureMetaType) and isinstance(type(b), StructureMetaType)):
            return False
        if type(a).__name__ != type(b).__name__ or list(type(a).fields) != list(type(b).fields):
            return False
        r = True
        for name in type(a).fields:
            e = eq_values(interp, getattr(a, name), getattr(b, name))
            if e is False:
                return False
            r = interp._and(r, e)
        return r
    if isinstance(a, (list, tuple)) and isinstance(b, (list, tuple)):
        if len(a) != len(b) or (type(a).__name__ != type(b).__name__):
            return False
        r = True
        for x, y in zip(a, b):
            e = eq_values(interp, x, y)
            if e is False:
                return False
            r = interp._and(r, e)
        return r
    if isinstance(a, dict) and isinstance(b, dict):
        if a.keys() != b.keys():
            return False
        r = True
        for k in a:
            e = eq_values(interp, a[k], b[k])
            if e is False:
                return False
            r = interp._and(r, e)
        return r
    if not is_z3(a) and not is_z3(b) and not isinstance(a, (SBytes, SStr, SFloat, SArr)) and not isinstance(b, (SBytes, SStr, SFloat, SArr)):
        if type(a).__name__ != type(b).__name__ and not (isinstance(a, (int, bytes, str, float)) and isinstance(b, (int, bytes, str, float))):
            return False
    return deep_eq(interp, a, b)


def native_equiv(a, b):
    """Same comparison on native values (replay side)."""
    import enum

    from dissect.cstruct.types.structure import Structure
    from pyvc.models import _unproxy

    a, b = _unproxy(a), _unproxy(b)
    if isinstance(a, Structure) or isinstance(b, Structure):
        if not (isinstance(a, Structure) and isinstance(b, Structure)):
            return False
        if type(a).__name__ != type(b).__name__ or list(type(a).fields) != list(type(b).fields):
            return False
        return all(native_equiv(getattr(a, n), getattr(b, n)) for n in type(a).fields)
    if isinstance(a, (list, tuple)) and isinstance(b, (list, tuple)):
        return type(a).__name__ == type(b).__name__ and len(a) == len(b) and all(native_equiv(x, y) for x, y in zip(a, b))
    if type(a).__name__ != type(b).__name__:
        return False
    if isinstance(a, enum.Enum):
        return a.value == b.value and a.name == b.name
    if isinstance(a, float):
        import struct as _s

        return _s.pack("<d", a) == _s.pack("<d", b)
    if isinstance(a, int):
        return int(a) == int(b)
    if isinstance(a, (bytes, str)):
        return bytes(a) == bytes(b) if isinstance(a, bytes) else str(a) == str(b)
    return a == b


def default_roundtrip(T, eof=False):
    """T() -> dumps() -> parse: problems found (natively, on the real library)."""
    from dissect.cstruct.types.structure import UnionMetaType

    if isinstance(T, UnionMetaType) and T.dynamic:
        return []
    bad = []
    try:
        v0 = T()
        out = T.dumps(v0)
    except Exception as e:  # noqa: BLE001
        return [f"T().dumps() raises {type(e).__name__}: {str(e)[:80]}"]
    s = io.BytesIO(out + (b"" if eof else b"\x5a\xa5"))
    try:
        v1 = T._read(s)
    except Exception as e:  # noqa: BLE001
        return [f"parsing dumps(T()) = {out.hex()} raises {type(e).__name__}: {str(e)[:80]}"]
    if not (v1 == v0):  # the statement's own notion: "a value equal to v"
        bad.append(f"parse(dumps(T())) = {v1!r} != T() = {v0!r}"[:300])
    if s.tell() != len(out):
        bad.append(f"re-parse of dumps(T()) consumed {s.tell()} of {len(out)} bytes")
    return bad


def _pointers_of(v, depth=0):
    from dissect.cstruct.types import Structure

    out = []
    if depth > 6:
        return out
    if type(v).__name__ == "UnionProxy":
        v = object.__getattribute__(v, "__target__")
    if isinstance(v, SPtr):
        out.append(v)
    elif isinstance(v, (list, tuple)):
        for x in v:
            out += _pointers_of(x, depth + 1)
    elif isinstance(v, Structure):
        for n in type(v).fields:
            out += _pointers_of(getattr(v, n, None), depth + 1)
    return out


def data_extent(t):
    """Offset just past the last data-carrying byte of a fixed-size type (tail padding, also nested, carries no data)."""
    from dissect.cstruct.types import BaseArray, Structure
    from dissect.cstruct.types.structure import UnionMetaType

    if isinstance(t, UnionMetaType):
        return max((data_extent(f.type) for f in t.__fields__), default=0)
    if isinstance(t, type) and issubclass(t, Structure):
        return max(((f.offset or 0) + data_extent(f.type) for f in t.__fields__), default=0)
    if isinstance(t, type) and issubclass(t, BaseArray) and isinstance(t.num_entries, int) and t.type.size is not None:
        return 0 if t.num_entries == 0 else (t.num_entries - 1) * t.type.size + data_extent(t.type)
    return t.size or 0


def sizes_of(obj):
    return getattr(obj, "_sizes", None)


class RelCompiledInterpreted(T2Case):
    """C03: compiled reader == interpreted reader on every input (translation validation per program)."""

    kind = "C03rel"
    functions = ["dissect/cstruct/types/structure.py:StructureMetaType._read", "<generated>._read (compiler.py:_ReadSourceGenerator)"]

    any_start = False  # True: the start position is arbitrary, also for aligned definitions

    def body(self, ctx):
        if not self.load_or_reject(ctx):
            return
        Ti, Tc = self.cls(False), self.cls(True)
        if self.any_start and (Ti.size is None or not self.prog.align):
            return  # the arbitrary-start variant is run for fixed-size aligned definitions (offsets are relative to the start)
        D, p = self.new_input(ctx, aligned_start=not self.any_start)
        it = self.interp(ctx)
        s1 = SymStream(ctx, D, p, name="si")
        o1 = outcome(it, Ti._read, [s1])
        s2 = SymStream(ctx, D, p, name="sc")
        o2 = outcome(it, Tc._read, [s2])
        ctx.cover("reach")
        if o1[0] == "ok" and o2[0] == "ok":
            ctx.prove("values-equal", eq_values(it, o1[1], o2[1]), info="field values")
            ctx.prove("pos-equal", ctx.eq(s1.pos, s2.pos), info="consumed bytes")
            z1, z2 = sizes_of(o1[1]), sizes_of(o2[1])
            # "equal recorded sizes for every field that occupies bytes": an entry that is missing on one
            # side must be 0 on the other (void members, zero-length arrays)
            if isinstance(z1, dict) and isinstance(z2, dict):
                z1f = {k: z1.get(k, 0) for k in set(z1) | set(z2)}
                z2f = {k: z2.get(k, 0) for k in set(z1) | set(z2)}
            else:
                z1f, z2f = z1, z2
            ctx.prove("sizes-equal", eq_values(it, z1f, z2f), info=f"_sizes keys {sorted(z1) if z1 is not None else None} vs {sorted(z2) if z2 is not None else None}")
        elif o1[0] == "raise" and o2[0] == "raise":
            # both refuse the input: only end-of-input style refusals may differ in class
            ok = o1[1] is o2[1] or {o1[1].__name__, o2[1].__name__} <= {"EOFError", "error"}
            ctx.prove("same-refusal", ok, info=f"{o1[1].__name__} vs {o2[1].__name__}")
        else:
            # one returns, the other refuses: a contradiction
            which = "interpreted" if o1[0] == "ok" else "compiled"
            exc = (o2 if o1[0] == "ok" else o1)[1].__name__
            ctx.prove("no-contradiction", False, info=f"{which} returns, other raises {exc}")

    def native(self, inputs):
        return native_rel(self.prog, inputs)


def native_rel(prog, inputs):
    data = bytes.fromhex(inputs["D"])
    p = inputs["p"]
    res = {}
    for compiled in (False, True):
        T = prog.load(compiled).T
        s = io.BytesIO(data)
        s.seek(p)
        try:
            v = T._read(s)
            res[compiled] = ("ok", v, s.tell(), dict(v._sizes))
        except Exception as e:  # noqa: BLE001
            res[compiled] = ("raise", type(e).__name__, str(e)[:100])
    a, b = res[False], res[True]
    same = False
    if a[0] == b[0] == "ok":
        ks = set(a[3]) | set(b[3])
        same = native_equiv(a[1], b[1]) and a[2] == b[2] and all(a[3].get(k, 0) == b[3].get(k, 0) for k in ks)
    elif a[0] == b[0] == "raise":
        same = a[1] == b[1] or {a[1], b[1]} <= {"EOFError", "error"}
    obs = {
        "interpreted": (a[0], repr(a[1]), *a[2:]) if a[0] == "ok" else a,
        "compiled": (b[0], repr(b[1]), *b[2:]) if b[0] == "ok" else b,
    }
    return {"reproduced": not same, "observed": json.loads(json.dumps(obs, default=str))}


def make_rel(prog_json):
    return RelCompiledInterpreted(prog_json)


class RelAnyStart(RelCompiledInterpreted):
    """C03 at an arbitrary (also unaligned) start position, for fixed-size aligned definitions: both readers place members
    relative to the start of the structure."""

    kind = "C03rel@any"
    any_start = True


def make_rel_any(prog_json):
    return RelAnyStart(prog_json)


# ----------------------------------------------------------------------------------------------------
# the read / write / re-read pipeline (C01, C02, C04 size agreement, C06, C07, C08, C09, C16 per program)

PROBE_FUNCS = {"_is_eof"}


def has_eof_array(prog):
    from t2.family import EOF_KINDS

    return any(k in EOF_KINDS for k in prog.kinds)


class Pipeline(T2Case):
    """For one program and one reader (compiled or interpreted), on symbolic input D at position p:

      v  = read(D, p)                      C08: no short read is accepted; C09: reads stay inside [p, end)
      B  = write(v)                        C02: len(B) == consumed, B == D on data bits, 0 elsewhere
      v' = read(B ++ R, 0)                 C01: v' == v and consumed' == len(B)
      w  = read(window(D, p), 0)           C09: w == v, sizes equal, end == p + end_w
      L' >= L (longer input, same prefix)  C08: the path stays valid and the value is unchanged
    """

    kind = "pipe"
    functions = [
        "dissect/cstruct/types/structure.py:StructureMetaType._read",
        "dissect/cstruct/types/structure.py:StructureMetaType._write",
        "dissect/cstruct/types/structure.py:UnionMetaType._read",
        "dissect/cstruct/types/structure.py:UnionMetaType._read_fields",
        "dissect/cstruct/types/structure.py:UnionMetaType._write",
        "dissect/cstruct/types/base.py:BaseArray._read",
        "dissect/cstruct/types/base.py:BaseArray._write",
        "dissect/cstruct/bitbuffer.py:BitBuffer.read",
        "dissect/cstruct/bitbuffer.py:BitBuffer.write",
        "dissect/cstruct/bitbuffer.py:BitBuffer.flush",
    ]

    def __init__(self, prog_json, compiled, props):
        self.compiled = bool(compiled)
        self.props = set(props)
        self.kind = "pipe" + ("C" if compiled else "I") + "[" + "+".join(sorted(props)) + "]"
        super().__init__(prog_json)

    def want(self, p):
        return p in self.props

    def native(self, inputs):
        return native_pipeline(self.prog, self.compiled, self.props, inputs)

    def interp(self, ctx):
        sm = dict(summaries())
        if "C02" in self.props:
            ctx.ghost["assume_canonical_leb"] = True  # C02's explicit premise (minimal LEB128)
        return Interp(ctx, summaries=sm, unroll=UNROLL)

    def body(self, ctx):
        if not self.load_or_reject(ctx):
            return
        T = self.cls(self.compiled)
        if self.want("C01") and not getattr(self, "_default_done", False):
            # values "constructed directly": the default-constructed value dumps and parses back (evaluated on the real
            # library; also covers a reader that refuses every input, which the parse-first clauses below cannot see)
            self._default_done = True
            bad = default_roundtrip(T, has_eof_array(self.prog))
            ctx.prove("C01/default-constructed-value-roundtrips", not bad, info="; ".join(bad)[:300] or "T() -> dumps -> parse == T()")
        D, p = self.new_input(ctx)
        it = self.interp(ctx)
        s = SymStream(ctx, D, p, name="in")
        o = outcome(it, T._read, [s])
        if o[0] == "raise":
            ctx.cover("refused")
            # C08: premature end must be signalled as EOFError (struct.error for a trailing partial element of
            # an [EOF] array is outside the statement)
            if self.want("C08") and any(e[0] == "read" and _short(e) for e in s.log if e[4] not in PROBE_FUNCS):
                ok = o[1] is EOFError or (has_eof_array(self.prog) and o[1].__name__ == "error")
                ctx.prove("C08/short-read-raises-EOFError", ok, info=f"raised {o[1].__name__}")
            return
        v = o[1]
        end = s.pos
        ctx.cover("parsed")
        consumed = _norm(zint(end) - zint(p))
        if T.size is not None and (self.props & {"C02", "C04"}) and not self.want("C08"):
            # size agreement is stated for complete inputs (a union may be parsed from an input that lacks only tail padding)
            ctx.assume(zint(p) + T.size <= D.length())
        reads = [e for e in s.log if e[0] == "read"]
        if self.want("C08") and T.size is not None and self.prog.union:
            # a fixed-size union reads its whole size at once, tail padding included; an input that lacks only (part of)
            # that padding holds every data-carrying byte and is accepted by design (same value, dumps() re-pads): such
            # lengths are outside C08's statement ("before the last data-carrying byte")
            extent = data_extent(T)
            if extent < T.size:
                avail = _norm(D.length() - zint(p))
                ctx.assume(z3.Or(avail >= T.size, avail < extent))
        if self.want("C08"):
            bad = [e for e in reads if e[4] not in PROBE_FUNCS and _short(e)]
            goal = True
            for e in bad:
                goal = it._and(goal, ctx.eq(e[2], e[3]))
            ctx.prove("C08/no-short-read-accepted", goal, info=f"{len(reads)} reads; candidates for short: {[(str(e[1]), str(e[2]), str(e[3]), e[4]) for e in bad][:2]}")
            if not has_eof_array(self.prog):
                self.monotone(ctx, it, D, v, end)
        if self.want("C09"):
            for i, e in enumerate(reads):
                if e[4] in PROBE_FUNCS:
                    continue
                inside = z3.And(zint(e[1]) >= zint(p), zint(e[1]) + zint(e[3]) <= zint(end))
                ctx.prove(f"C09/read{i}-inside-extent", _norm(inside), info=f"read at {e[1]} len {e[3]} by {e[4]}")
            self.window(ctx, it, D, p, v, end, T)
        if self.want("C16"):
            # every pointer in the value, wherever it sits (array elements, nested structures), is bound to the stream that
            # was parsed: dereferencing seeks in that stream
            ptrs = _pointers_of(v)
            if ptrs:
                ctx.prove("C16/pointers-bound-to-the-parsed-stream", all(getattr(q, "_stream", None) is s for q in ptrs), info=f"{len(ptrs)} pointers")
        if self.want("C04") and T.size is not None:
            ctx.prove("C04/consumed==len(T)", ctx.eq(consumed, len(T)), info=f"len(T)={len(T)}")
        if not (self.want("C01") or self.want("C02") or self.want("C04")):
            return
        from dissect.cstruct.types.structure import UnionMetaType

        if isinstance(T, UnionMetaType) and T.dynamic:
            # dumping (and modifying) a dynamic union is explicitly unsupported by the library (NotImplementedError):
            # outside the domain of the dump-side statements
            return
        # ---- write
        out = SymStream(ctx, SBytes([]), 0, name="out")
        ow = outcome(it, T._write, [out, v])
        if ow[0] == "raise":
            ctx.prove("C01/dump-of-parsed-value-succeeds", False, info=f"_write raised {ow[1].__name__}")
            return
        B = out.data
        blen = B.length()
        if self.want("C04") and T.size is not None:
            ctx.prove("C04/dumped==len(T)", ctx.eq(blen, len(T)), info=f"len(T)={len(T)}")
        if self.want("C02"):
            ctx.prove("C02/length==consumed", ctx.eq(blen, consumed), info=f"dumped {blen} consumed {consumed}")
            self.fidelity(ctx, it, D, p, B, T)
        if self.want("C01"):
            # dumps(v) is followed by arbitrary further bytes R, except for [EOF] arrays whose extent is the
            # end of the input by definition
            R = SBytes([]) if has_eof_array(self.prog) else SBytes.fresh("R")
            s2 = SymStream(ctx, B.concat(R), 0, name="re")
            o2 = outcome(it, T._read, [s2])
            if o2[0] == "raise":
                ctx.prove("C01/reparse-succeeds", False, info=f"re-parse raised {o2[1].__name__}")
                return
            ctx.prove("C01/roundtrip-values", deep_eq(it, o2[1], v), info="parse(dump(v)) == v")
            ctx.prove("C01/roundtrip-consumed", ctx.eq(s2.pos, blen), info=f"consumed {s2.pos} of {blen}")

    # -- C08: a longer input with the same prefix takes the same path and gives the same value
    def monotone(self, ctx, it, D, v, end):
        seg = D.items[0]
        L = z3.Length(seg.seq)
        L2 = z3.Int("L_longer")
        sub = [z3.substitute(c, (L, L2)) for c in ctx.pc if _mentions(c, L)]
        if not sub:
            ctx.prove("C08/longer-input-same-path", True, info="path condition independent of input length")
            return
        ctx.prove("C08/longer-input-same-path", z3.Implies(L2 >= L, z3.And(*sub)), info=f"{len(sub)} length-dependent path conjuncts")
        # value terms must not depend on the length
        terms = _collect_terms(v)
        dep = [t for t in terms if _mentions(t, L)]
        if dep:
            ctx.prove("C08/value-independent-of-length", z3.Implies(L2 >= L, z3.And(*[t == z3.substitute(t, (L, L2)) for t in dep])),
                      info=f"{len(dep)} value terms mention the input length")
        else:
            ctx.prove("C08/value-independent-of-length", True, info="no value term mentions the input length")

    # -- C09: parsing the window D[p:] from 0 gives the same value
    def window(self, ctx, it, D, p, v, end, T):
        seg = D.items[0]
        n = _norm(z3.Length(seg.seq) - zint(p))
        if ctx.branch(ctx.lt(n, 0)):
            return
        w = SBytes([seg.window(p, n)])
        s3 = SymStream(ctx, w, 0, name="win")
        o3 = outcome(it, T._read, [s3])
        if o3[0] == "raise":
            ctx.prove("C09/window-parse-succeeds", False, info=f"parse of D[p:] raised {o3[1].__name__}")
            return
        ctx.prove("C09/window-values", deep_eq(it, o3[1], v), info="T(D[p:]) == T(stream at p)")
        ctx.prove("C09/window-sizes", deep_eq(it, sizes_of(o3[1]), sizes_of(v)), info="_sizes equal")
        ctx.prove("C09/window-end", ctx.eq(_norm(zint(p) + zint(s3.pos)), end), info="stream left at p + encoded size")
        if T.size is not None:
            # the encoded size of a fixed-size type is its declared size (pinned independently of the reader under test)
            # (when the input holds the whole extent: trailing padding is not data, an input that lacks only padding is
            # accepted by design - C08 speaks of data-carrying bytes)
            whole = z3.Length(seg.seq) >= zint(p) + T.size
            e = ctx.eq(end, _norm(zint(p) + T.size))
            ctx.prove("C09/end==p+len(T)", True if e is True else z3.Implies(whole, e if not isinstance(e, bool) else z3.BoolVal(e)), info=f"len(T)={T.size}")

    # -- C02
    def fidelity(self, ctx, it, D, p, B, T):
        from specs import layout

        if T.size is not None and isinstance(B.length(), int):
            desc = layout.describe(T)
            if desc.get("layout", True) is None or desc["size"] != B.length():
                ctx.prove("C02/mask-available", desc["size"] == B.length(), info=f"reference size {desc['size']} vs dumped {B.length()}")
                return
            m = layout.mask(desc, self.prog.endian)
            seg = D.items[0]
            bad = []
            for k, mk in enumerate(m):
                ob = B.byte_at(k)
                ib = seg.at(_norm(zint(p) + k))
                ctx.assume_byte(ib)
                if mk == 0xFF:
                    g = deep_eq(it, ob, ib)
                elif mk == 0:
                    g = deep_eq(it, ob, 0)
                else:
                    from pyvc import sym as _s

                    g = _norm(zint(ob) == _s.and_const(ib, mk))
                ctx.prove(f"C02/byte{k}-mask{mk:02x}", g, info=f"out[{k}] vs in[p+{k}] on mask {mk:#04x}")
        else:
            # variable-size definition: the extent is data-dependent; fidelity is stated piecewise on the
            # output rope: every piece is either the bytes a read delivered or zero padding.
            seg = D.items[0]
            inp = SBytes([seg.window(p, B.length())])
            ctx.prove("C02/dynamic-bytes", _dyn_fidelity(ctx, it, T, B, inp), info="dump == consumed input except padding (variable-size definition)")


def _dyn_fidelity(ctx, it, T, B, inp):
    """Walk the output rope: every byte item must equal the input byte at the same offset (or be 0 where an
    aligned definition pads), every opaque segment must be the very window of the input at that offset."""
    seg = inp.items[0]
    off = 0
    goal = True
    for item in B.items:
        if isinstance(item, Seg):
            same = item.fn is seg.fn and item.fn is not None
            if not same:
                return False
            goal = it._and(goal, ctx.eq(_norm(zint(item.off)), _norm(zint(seg.off) + zint(off))))
            off = _norm(zint(off) + zint(item.n))
        else:
            ib = seg.at(off)
            ctx.assume_byte(ib)
            mk = ctx.ghost.get("bb", {}).get("masked", {}).get(item.get_id()) if is_z3(item) else None
            if mk is not None and z3.eq(z3.simplify(mk[0]), z3.simplify(ib)):
                # the input byte with the unassigned bits of a bit-field unit cleared
                off = _norm(zint(off) + 1)
                continue
            if isinstance(item, int) and item == 0:
                slack = ctx.ghost.get("bb", {}).get("slack", [])
                zo = z3.simplify(zint(off))
                if any(nm == "out" and z3.eq(z3.simplify(zint(o)), zo) for nm, o in slack):
                    # a unit byte none of whose bits belongs to a field: written as zero
                    off = _norm(zint(off) + 1)
                    continue
            e = deep_eq(it, item, ib)
            if T.__align__ and e is not True:
                z = deep_eq(it, item, 0)
                e = True if z is True else z3.Or(zbool_(e), zbool_(z))
            goal = it._and(goal, e)
            off = _norm(zint(off) + 1)
    return goal


def zbool_(e):
    return z3.BoolVal(e) if isinstance(e, bool) else e


def _short(e):
    """log entry (kind, pos, requested, got, caller): short iff requested is a count and got differs"""
    req, got = e[2], e[3]
    if req is None or (isinstance(req, int) and req < 0):
        return False
    if isinstance(req, int) and isinstance(got, int):
        return got != req
    return not z3.eq(z3.simplify(zint(req)), z3.simplify(zint(got)))


def _mentions(term, sub):
    seen = set()
    stack = [term]
    sid = sub.get_id()
    while stack:
        t = stack.pop()
        i = t.get_id()
        if i in seen:
            continue
        seen.add(i)
        if i == sid:
            return True
        stack.extend(t.children())
    return False


def _collect_terms(v, depth=0):
    from dissect.cstruct.types.structure import StructureMetaType

    out = []
    if depth > 8:
        return out
    if is_z3(v):
        out.append(v)
    elif isinstance(v, (SEnum, SPtr)):
        out += _collect_terms(v.value, depth + 1)
    elif isinstance(v, SBytes):
        for i in v.items:
            if isinstance(i, Seg):
                out.append(i.seq)
                if is_z3(i.n):
                    out.append(i.n)
            elif is_z3(i):
                out.append(i)
    elif isinstance(v, SStr):
        out += _collect_terms(v.raw, depth + 1)
    elif isinstance(v, SFloat):
        out += _collect_terms(v.bits, depth + 1)
    elif isinstance(v, SArr):
        out += _collect_terms(v.raw, depth + 1) + _collect_terms(v.count, depth + 1)
    elif isinstance(v, (list, tuple)):
        for x in v:
            out += _collect_terms(x, depth + 1)
    elif isinstance(v, dict):
        for x in v.values():
            out += _collect_terms(x, depth + 1)
    elif isinstance(type(v), StructureMetaType):
        for name in type(v).fields:
            out += _collect_terms(getattr(v, name, None), depth + 1)
    return out


def native_pipeline(prog, compiled, props, inputs):
    """Replay of a pipeline counter-model on the real library (no engine involved)."""
    from specs import layout

    data = bytes.fromhex(inputs["D"])
    p = inputs["p"]
    T = prog.load(compiled).T
    obs = {}
    bad = []
    if "C01" in props:
        bad += default_roundtrip(T, has_eof_array(prog))
        if bad:
            return {"reproduced": True, "observed": {"violations": bad}}
    s = io.BytesIO(data)
    s.seek(p)
    try:
        v = T._read(s)
    except Exception as e:  # noqa: BLE001
        obs["parse"] = f"raises {type(e).__name__}: {str(e)[:80]}"
        if "C08" in props and not isinstance(e, EOFError) and len(data) - p < 64:
            # is it a premature end? (the same input extended with zeros parses)
            try:
                s2 = io.BytesIO(data + bytes(64))
                s2.seek(p)
                T._read(s2)
                if not (has_eof_array(prog) and type(e).__name__ == "error"):
                    bad.append(f"premature end signalled as {type(e).__name__}")
            except Exception:  # noqa: BLE001
                pass
        return {"reproduced": bool(bad), "observed": {**obs, "violations": bad}}
    end = s.tell()
    consumed = end - p
    obs["parsed"] = repr(v)[:300]
    obs["consumed"] = consumed
    if "C04" in props and T.size is not None and consumed != len(T):
        bad.append(f"consumed {consumed} != len(T) {len(T)}")
    if "C16" in props:
        from dissect.cstruct.types import Pointer, Structure

        def walk(x, d=0):
            if type(x).__name__ == "UnionProxy":
                x = object.__getattribute__(x, "__target__")
            if isinstance(x, Pointer):
                if x._stream is not s:
                    bad.append(f"pointer {x!r} is bound to another stream than the one that was parsed")
            elif isinstance(x, list) and d < 6:
                for y in x:
                    walk(y, d + 1)
            elif isinstance(x, Structure) and d < 6:
                for n in type(x).fields:
                    walk(getattr(x, n, None), d + 1)

        walk(v)
    if "C08" in props and not has_eof_array(prog):
        s2 = io.BytesIO(data + b"\xa5" * 7)
        s2.seek(p)
        try:
            v2 = T._read(s2)
            if not native_equiv(v2, v):
                bad.append(f"longer input gives another value: {v2!r}"[:200])
        except Exception as e:  # noqa: BLE001
            bad.append(f"longer input raises {type(e).__name__}")
    if "C09" in props:
        try:
            w = T._read(io.BytesIO(data[p:]))
            if not native_equiv(w, v) or dict(w._sizes) != dict(v._sizes):
                bad.append(f"T(D[p:]) differs: {w!r} sizes {w._sizes} vs {v._sizes}"[:300])
            if T.size is not None and consumed != T.size and len(data) - p >= T.size:
                bad.append(f"stream left at p + {consumed}, len(T) = {T.size}")
        except Exception as e:  # noqa: BLE001
            bad.append(f"T(D[p:]) raises {type(e).__name__}")
    if props & {"C01", "C02", "C04"}:
        try:
            out = T.dumps(v)
        except Exception as e:  # noqa: BLE001
            bad.append(f"dumps raises {type(e).__name__}: {str(e)[:80]}")
            return {"reproduced": True, "observed": {**obs, "violations": bad}}
        obs["dumped"] = out.hex()
        if "C04" in props and T.size is not None and len(out) != len(T):
            bad.append(f"dumped {len(out)} != len(T) {len(T)}")
        if "C02" in props:
            if len(out) != consumed:
                bad.append(f"dumped {len(out)} bytes, consumed {consumed}")
            elif T.size is not None:
                desc = layout.describe(T)
                if desc["size"] == len(out) and desc.get("layout", True) is not None:
                    m = layout.mask(desc, prog.endian)
                    for k, mk in enumerate(m):
                        if out[k] != (data[p + k] & mk):
                            bad.append(f"byte {k}: out {out[k]:#04x} in {data[p + k]:#04x} mask {mk:#04x}")
                            break
                else:
                    bad.append(f"reference size {desc['size']} != dumped {len(out)}")
            elif not prog.align and not any(k.startswith("b") for k in prog.kinds) and out != data[p:end]:
                bad.append(f"dump {out.hex()} != input {data[p:end].hex()}")
        if "C01" in props:
            R = b"" if has_eof_array(prog) else b"\x5a\xa5\x01"
            s3 = io.BytesIO(out + R)
            try:
                v3 = T._read(s3)
                if not native_equiv(v3, v):
                    bad.append(f"parse(dumps(v)) = {v3!r} != v"[:300])
                if s3.tell() != len(out):
                    bad.append(f"re-parse consumed {s3.tell()} of {len(out)}")
            except Exception as e:  # noqa: BLE001
                bad.append(f"re-parse raises {type(e).__name__}: {str(e)[:80]}")
    return {"reproduced": bool(bad), "observed": {**obs, "violations": bad}}


def _reference_straddles(prog):
    """Does the reference (C06 statement) refuse this definition? Decided on the declaration text: bit-field runs."""
    import re

    from specs import layout

    body = prog.text[prog.text.rindex("T {") + 3 : prog.text.rindex("}")]
    sizes = {"uint8": 1, "int8": 1, "uint16": 2, "int16": 2, "uint32": 4, "int32": 4, "uint64": 8, "int64": 8, "uint24": 3,
             "int24": 3, "E8": 1, "E16s": 2, "F32": 4, "char": 1}
    cur = None
    rem = 0
    for decl in body.split(";"):
        decl = decl.strip()
        m = re.match(r"^(\w+)\s+\w+\s*:\s*(\d+)$", decl)
        if not m:
            cur = None
            continue
        t, b = m.group(1), int(m.group(2))
        st = {"E8": "uint8", "E16s": "int16", "F32": "uint32"}.get(t, t)
        if cur != st or rem == 0:
            cur, rem = st, sizes[t] * 8
        if b > rem:
            return True
        rem -= b
    return False


def make_pipe(prog_json, compiled, props):
    return Pipeline(prog_json, compiled, props)


class SwitchEndian(T2Case):
    """C05: a definition loaded under one byte order is read under the other one after cs.endian is switched: the
    compiled reader must follow the switch exactly like the interpreted one (no byte order frozen into generated code)."""

    kind = "C05switch"
    functions = ["<generated>._read (compiler.py:_ReadSourceGenerator)", "dissect/cstruct/types/structure.py:StructureMetaType._read"]

    def body(self, ctx):
        if not self.load_or_reject(ctx):
            return
        other = ">" if self.prog.endian == "<" else "<"
        # warm both readers up natively under the original byte order, then switch
        for c in (False, True):
            T = self.cls(c)
            try:
                T(bytes(64))
            except Exception:  # noqa: BLE001
                pass
            self._cs[c].endian = other
        try:
            Ti, Tc = self.cls(False), self.cls(True)
            D, p = self.new_input(ctx)
            it = self.interp(ctx)
            s1 = SymStream(ctx, D, p, name="si")
            o1 = outcome(it, Ti._read, [s1])
            s2 = SymStream(ctx, D, p, name="sc")
            o2 = outcome(it, Tc._read, [s2])
            ctx.cover("reach")
            if o1[0] == "ok" and o2[0] == "ok":
                ctx.prove("values-equal-after-switch", eq_values(it, o1[1], o2[1]))
                ctx.prove("pos-equal-after-switch", ctx.eq(s1.pos, s2.pos))
            elif o1[0] != o2[0]:
                ctx.prove("no-contradiction-after-switch", False, info=f"{o1[0]} vs {o2[0]}")
        finally:
            for c in (False, True):
                self._cs[c].endian = self.prog.endian


def _native_switch(self, inputs):
    """Native replay: fresh cstruct objects, warm-up parse under the original byte order, switch, parse the model's input
    with both readers."""
    data = bytes.fromhex(inputs["D"])
    p = inputs["p"]
    other = ">" if self.prog.endian == "<" else "<"
    res = {}
    for compiled in (False, True):
        cs = self.prog.load(compiled)
        T = cs.T
        try:
            T(bytes(64))
        except Exception:  # noqa: BLE001
            pass
        cs.endian = other
        s = io.BytesIO(data)
        s.seek(p)
        try:
            v = T._read(s)
            res[compiled] = ("ok", v, s.tell())
        except Exception as e:  # noqa: BLE001
            res[compiled] = ("raise", type(e).__name__, str(e)[:100])
    a, b = res[False], res[True]
    if a[0] == b[0] == "ok":
        same = native_equiv(a[1], b[1]) and a[2] == b[2]
    else:
        same = a[0] == b[0]
    obs = {"after switching to": other, "interpreted": (a[0], repr(a[1]), *a[2:]), "compiled": (b[0], repr(b[1]), *b[2:])}
    return {"reproduced": not same, "observed": json.loads(json.dumps(obs, default=str))}


SwitchEndian.native = _native_switch


def make_switch(prog_json):
    return SwitchEndian(prog_json)


class LayoutRef(T2Case):
    """C04/C06/C11: the library's computed layout of a program equals the independent reference layout."""

    kind = "layout"
    functions = ["dissect/cstruct/types/structure.py:StructureMetaType._calculate_size_and_offsets",
                 "dissect/cstruct/types/structure.py:UnionMetaType._calculate_size_and_offsets"]

    def body(self, ctx):
        from specs import layout

        if not self.load_or_reject(ctx):
            return
        for compiled in (False, True):
            cs = self._cs[compiled]
            for name, t in cs.typedefs.items():
                from dissect.cstruct.types import Structure

                if not (isinstance(t, type) and issubclass(t, Structure)):
                    continue
                d = layout.describe(t)
                lib = layout.library_view(t)
                tag = f"{'compiled' if compiled else 'interpreted'}/{name}"
                ctx.prove(f"{tag}/size", lib["size"] == d["size"], info=f"library {lib['size']} reference {d['size']}")
                ctx.prove(f"{tag}/alignment", (lib["align"] or 0) == (d["align"] or 0), info=f"library {lib['align']} reference {d['align']}")
                ref = d["layout"]["offsets"] if d.get("layout") else None
                if d["kind"] == "union":
                    ok = all((f.offset or 0) == 0 for f in t.__fields__)
                    ctx.prove(f"{tag}/union-members-at-0", ok)
                elif ref is not None:
                    ctx.prove(f"{tag}/offsets", lib["offsets"] == ref, info=f"library {lib['offsets']} reference {ref}")
        a, b = self._cs[False].T, self._cs[True].T
        ctx.prove("compiled-and-interpreted-layout-equal", (a.size, a.alignment, [f.offset for f in a.__fields__]) == (b.size, b.alignment, [f.offset for f in b.__fields__]))
        ctx.cover("layout")


def make_layout(prog_json):
    return LayoutRef(prog_json)


class ArraySemantics(T2Case):
    """C07 per single-array program: number of elements and consumed bytes follow the declared length form."""

    kind = "C07arr"
    functions = ["dissect/cstruct/types/base.py:BaseArray._read", "dissect/cstruct/types/base.py:MetaType._read_array"]
    DECL = {"a_u16_3": (3, 2), "a_i24_2": (2, 3), "a_u8_0": (0, 1), "a_char_4": (4, 1), "a_wchar_2": (2, 2), "a_e8_2": (2, 1), "a_ptr_2": (2, 8),
            "a_f32_2": (2, 4), "a_inner_2": (2, None)}
    DYN = {"d_u16": 2, "d_char": 1, "d_wchar": 2, "d_i24": 3}
    ZERO = {"z_char": 1, "z_u16": 2, "z_wchar": 2, "z_i24": 3, "z_e8": 1}
    EOFK = {"eof_u8": 1, "eof_u16": 2, "eof_char": 1}

    def body(self, ctx):
        if not self.load_or_reject(ctx):
            return
        k = self.prog.kinds[0]
        for compiled in (False, True):
            T = self.cls(compiled)
            D, p = self.new_input(ctx)
            it = self.interp(ctx)
            s = SymStream(ctx, D, p, name="in")
            o = outcome(it, T._read, [s])
            tag = "compiled" if compiled else "interpreted"
            if o[0] != "ok":
                continue
            v = getattr(o[1], "f0")
            n = _count(v, k)
            L = D.length()
            if k in self.DECL:
                cnt, _ = self.DECL[k]
                ctx.prove(f"{tag}/x[n]-holds-exactly-n", ctx.eq(n, cnt), info=f"{n} elements")
            elif k in self.DYN:
                want = getattr(o[1], "f0_n")
                ctx.prove(f"{tag}/x[expr]-holds-expr-elements", ctx.eq(n, want))
                ctx.prove(f"{tag}/x[expr]-consumes-count*size", ctx.eq(s.pos, _norm(zint(p) + 1 + zint(want) * self.DYN[k])) if not self.prog.align else True)
            elif k == "d_expr":
                a, b = getattr(o[1], "f0_a"), getattr(o[1], "f0_b")
                ctx.prove(f"{tag}/x[expr]-evaluated-over-earlier-fields", ctx.eq(n, _norm(zint(a) * 2 + zint(b))))
            elif k in self.ZERO and not self.prog.align:
                sz = self.ZERO[k]
                ctx.prove(f"{tag}/x[]-consumes-elements-and-terminator", ctx.eq(s.pos, _norm(zint(p) + (zint(n) + 1) * sz)))
            elif k in self.EOFK:
                at_end = ctx.eq(s.pos, L)
                ctx.prove(f"{tag}/x[EOF]-takes-everything", z3.Or(zbool_(at_end), zint(L) <= zint(p)))
            ctx.cover(f"{tag}/parsed")


def _count(v, kind):
    if isinstance(v, SArr):
        return v.count
    if isinstance(v, SStr):
        n = v.raw.length()
        return n // 2 if isinstance(n, int) else _norm(zint(n) / 2)
    if isinstance(v, SBytes):
        return v.length()
    if isinstance(v, (bytes, str, list)):
        return len(v)
    raise Unsupported(f"count of {type(v).__name__}")


def make_arrsem(prog_json):
    return ArraySemantics(prog_json)


class UnionCoherence(T2Case):
    """C11: a fixed-size union consumes exactly its size; every member equals the parse of its own type from the union's
    bytes (at the member's offset, i.e. 0)."""

    kind = "C11union"
    functions = ["dissect/cstruct/types/structure.py:UnionMetaType._read", "dissect/cstruct/types/structure.py:UnionMetaType._read_fields",
                 "dissect/cstruct/types/structure.py:Union._update", "dissect/cstruct/types/structure.py:Union._proxify"]

    def body(self, ctx):
        if not self.load_or_reject(ctx):
            return
        T = self.cls(False)
        D, p = self.new_input(ctx)
        it = self.interp(ctx)
        s = SymStream(ctx, D, p, name="in")
        o = outcome(it, T._read, [s])
        L = D.length()
        if o[0] == "raise":
            ctx.prove("refuses-only-short-input", _norm(z3.Not(zint(p) + T.size <= zint(L))), info=o[1].__name__)
            return
        ctx.cover("parsed")
        v = o[1]
        ctx.prove("consumes-exactly-len(T)", z3.Implies(zint(p) + T.size <= zint(L), zbool_(ctx.eq(s.pos, _norm(zint(p) + T.size)))))
        seg = D.items[0]
        buf = SBytes([seg.at(_norm(zint(p) + i)) for i in range(T.size)])
        for f in T.__fields__:
            sub = SymStream(ctx, buf, f.offset or 0, name="m")
            try:
                want = it.call(f.type._read, [sub])
            except PyRaise as e:
                ctx.prove(f"member-{f._name}/parses-from-union-bytes", False, info=e.cls.__name__)
                continue
            got = getattr(v, f._name)
            got = getattr(got, "__target__", got)
            ctx.prove(f"member-{f._name}/equals-parse-of-its-type-from-the-union-bytes", deep_eq(it, got, want))


def make_union_coh(prog_json):
    return UnionCoherence(prog_json)


class AssignLocal(T2Case):
    """C17: assigning one field of a parsed fixed-size structure changes, in dumps(), exactly the bytes of that field."""

    kind = "C17assign"
    functions = ["dissect/cstruct/types/structure.py:StructureMetaType._write"]

    def body(self, ctx):
        from specs import layout

        if not self.load_or_reject(ctx):
            return
        T = self.cls(False)
        if T.size is None:
            return
        D, p = self.new_input(ctx)
        ctx.assume(zint(p) + T.size <= D.length())
        it = self.interp(ctx)
        s = SymStream(ctx, D, p, name="in")
        o = outcome(it, T._read, [s])
        if o[0] != "ok":
            return
        v = o[1]
        out0 = SymStream(ctx, SBytes([]), 0, name="out")
        if outcome(it, T._write, [out0, v])[0] != "ok":
            return
        base = out0.data
        desc = layout.describe(T)
        lay = desc.get("layout")
        if lay is None:
            return
        for i, f in enumerate(T.__fields__):
            if f.bits or f.name is None:
                continue
            ft = f.type
            from dissect.cstruct.types import Packed, Int

            if not (issubclass(ft, (Packed, Int)) and issubclass(ft, int)):
                continue
            nv = z3.Int(f"new_{f._name}")
            from pyvc.models import fits

            ctx.assume(fits(nv, ft.size, getattr(ft, "signed", None) if hasattr(ft, "signed") else ft.packchar.islower()))
            old = getattr(v, f._name)
            setattr(v, f._name, nv)
            out1 = SymStream(ctx, SBytes([]), 0, name="out")
            r = outcome(it, T._write, [out1, v])
            setattr(v, f._name, old)
            if r[0] != "ok":
                ctx.prove(f"assign-{f._name}/dumps-succeeds", False, info=str(r[1]))
                continue
            off = lay["offsets"][i]
            n1 = out1.data.length()
            ctx.prove(f"assign-{f._name}/same-length", ctx.eq(n1, base.length()))
            if isinstance(n1, int) and n1 == base.length():
                outside = [deep_eq(it, out1.data.byte_at(k), base.byte_at(k)) for k in range(n1) if not off <= k < off + ft.size]
                g = True
                for e in outside:
                    g = it._and(g, e)
                ctx.prove(f"assign-{f._name}/bytes-outside-the-field-unchanged", g)
                from pyvc.models import enc_int

                exp = enc_int(nv, ft.size, "little" if self.prog.endian == "<" else "big")
                inside = True
                for j in range(ft.size):
                    inside = it._and(inside, deep_eq(it, out1.data.byte_at(off + j), exp[j]))
                ctx.prove(f"assign-{f._name}/field-bytes-are-the-new-value", inside)
        ctx.cover("assigned")


def make_assign(prog_json):
    return AssignLocal(prog_json)
