"""Family F of structure definitions ("programs") on which the per-definition proofs (T2) run.

A program = preamble (helper types) + a struct/union made of a sequence of field *kinds*, x endian
x {packed, aligned}. The family is a stated bound over programs; the proofs per program are over all
data. Kinds are chosen to cover every (size, alignment) class and every branch of the interpreted
reader, the writer and the source generator.
"""
from __future__ import annotations

import itertools
import random

PREAMBLE = """
struct inner { uint8 ia; uint32 ib; uint16 ic; };
struct dyn { uint8 n; uint16 d[n]; };
enum E8 : uint8 { A8 = 1, B8 = 2 };
enum E16s : int16 { A16 = -1, B16 = 5 };
flag F32 : uint32 { X = 1, Y = 2, Z = 0x80000000 };
enum E24 : int24 { A24 = 1, B24 = -2 };
struct pnode { uint8 *p; uint8 v; };
struct other { struct hdr { uint8 hx; uint16 hy; } h; struct itm { uint8 ix; uint16 iy; } it[2]; uint8 t; };
"""

# name -> field text with {n} = unique prefix; '|' separates nothing, text may hold several fields
KINDS = {
    "u8": "uint8 {n};",
    "i8": "int8 {n};",
    "u16": "uint16 {n};",
    "i16": "int16 {n};",
    "u32": "uint32 {n};",
    "i32": "int32 {n};",
    "u64": "uint64 {n};",
    "i64": "int64 {n};",
    "f16": "float16 {n};",
    "f32": "float {n};",
    "f64": "double {n};",
    "i24": "int24 {n};",
    "u24": "uint24 {n};",
    "i48": "int48 {n};",
    "u48": "uint48 {n};",
    "i128": "int128 {n};",
    "u128": "uint128 {n};",
    "char": "char {n};",
    "wchar": "wchar {n};",
    "uleb": "uleb128 {n};",
    "ileb": "ileb128 {n};",
    "e8": "E8 {n};",
    "e16s": "E16s {n};",
    "fl32": "F32 {n};",
    "e24": "E24 {n};",
    "ptr": "uint8 *{n};",
    "ptrs": "inner *{n};",
    "pnode": "pnode {n};",
    "a_pnode_2": "pnode {n}[2];",
    "d_pnode": "uint8 {n}_n; pnode {n}[{n}_n];",
    "void": "void {n};",
    "a_u16_3": "uint16 {n}[3];",
    "a_i24_2": "int24 {n}[2];",
    "a_u8_0": "uint8 {n}[0];",
    "a_char_4": "char {n}[4];",
    "a_wchar_2": "wchar {n}[2];",
    "a_e8_2": "E8 {n}[2];",
    "a_e24_2": "E24 {n}[2];",
    "a_ptr_2": "uint8 *{n}[2];",
    "a_f32_2": "float {n}[2];",
    "a2d": "uint8 {n}[2][3];",
    "a2d_char": "char {n}[2][3];",
    "a2d_wchar": "wchar {n}[2][2];",
    "a2d_i24": "int24 {n}[2][2];",
    "a_inner_2": "inner {n}[2];",
    "d_u16": "uint8 {n}_n; uint16 {n}[{n}_n];",
    "d_char": "uint8 {n}_n; char {n}[{n}_n];",
    "d_wchar": "uint8 {n}_n; wchar {n}[{n}_n];",
    "d_i24": "uint8 {n}_n; int24 {n}[{n}_n];",
    "d_expr": "uint8 {n}_a; uint8 {n}_b; char {n}[{n}_a * 2 + {n}_b];",
    "d_expr2": "uint8 {n}_a; uint8 {n}_b; char {n}[{n}_a - {n}_b - 1];",
    "d_inner": "uint8 {n}_n; inner {n}[{n}_n];",
    "d_blk": "uint8 {n}_n; char {n}[{n}_n]; uint8 {n}_a; uint32 {n}_b;",
    "d_blk2": "uint8 {n}_n; uint16 {n}[{n}_n]; uint8 {n}_a[3]; int48 {n}_b;",
    "z_char": "char {n}[];",
    "z_u16": "uint16 {n}[];",
    "z_wchar": "wchar {n}[];",
    "z_i24": "int24 {n}[];",
    "z_e8": "E8 {n}[];",
    "z_uleb": "uleb128 {n}[];",
    "eof_u8": "uint8 {n}[EOF];",
    "eof_u16": "uint16 {n}[EOF];",
    "eof_char": "char {n}[EOF];",
    "eof_i24": "int24 {n}[EOF];",
    "eof_e24": "E24 {n}[EOF];",
    "inner": "inner {n};",
    "dyn": "dyn {n};",
    "anon_s": "struct {{ uint8 {n}a; uint16 {n}b; }};",
    "named_s": "struct {{ uint16 {n}a; uint8 {n}b; }} {n};",
    "same_hdr": "struct hdr {{ uint16 hy; uint8 hx; }} h; struct itm {{ uint16 iy; uint8 ix; }} it[2]; uint8 t;",
    "anon_bits": "struct {{ uint16 {n}a:4; uint16 {n}b:5; }};",
    "anon_s32": "struct {{ uint32 {n}w; }};",
    "anon_s3": "struct {{ uint8 {n}a; uint8 {n}b; uint8 {n}c; }};",
    "anon_u": "union {{ uint16 {n}a; uint8 {n}b[2]; }};",
    "named_u": "union {{ uint32 {n}a; uint8 {n}b; }} {n};",
    "b16_full": "uint16 {n}a:3; uint16 {n}b:13;",
    "b8_part": "uint8 {n}a:2; uint8 {n}b:3;",
    "b16_part": "uint16 {n}a:4; uint16 {n}b:5;",
    "b32_sw8": "uint32 {n}a:4; uint8 {n}b:4;",
    "b8_sw32": "uint8 {n}a:4; uint32 {n}b:8;",
    "b16_3": "uint16 {n}a:5; uint16 {n}b:5; uint16 {n}c:6;",
    "bi8": "int8 {n}a:4; int8 {n}b:4;",
    "be8": "E8 {n}a:3; E8 {n}b:5;",
    "b24": "uint24 {n}a:4; uint24 {n}b:4;",
    "b64": "uint64 {n}a:1; uint64 {n}b:63;",
    "b8_roll": "uint8 {n}a:5; uint8 {n}b:5;",
    "b16_sw8_2": "uint16 {n}a:3; uint8 {n}b:2; uint8 {n}c:3;",
    "b8_two": "uint8 {n}a:8; uint8 {n}b:8;",
    "b16_su": "uint16 {n}a:4; int16 {n}b:4;",
    "b8_us": "uint8 {n}a:3; int8 {n}b:3; uint8 {n}c:2;",
    "bc8": "uint8 {n}a:4; char {n}b:4;",
    "bcc": "char {n}a:3; char {n}b:5;",
    "bi16_whole": "int16 {n}x:16;",
    "be16s_whole": "E16s {n}x:16;",
    "b8_whole": "uint8 {n}x:8;",
    "b32_whole": "uint32 {n}x:32;",
    "bf32_whole": "F32 {n}x:32;",
}

EOF_KINDS = {"eof_u8", "eof_u16", "eof_char", "eof_i24", "eof_e24"}
SINGLE_ONLY = {"same_hdr"}  # fixed member names: only meaningful alone

# quick alphabet: covers every (size, alignment) class and every reader/writer/generator branch
QUICK = [
    "u8", "u16", "i32", "u64", "i24", "u48", "i128", "f32", "char", "wchar", "uleb", "e8", "ptr",
    "a_u16_3", "a_char_4", "a_i24_2", "d_u16", "d_char", "z_char", "inner", "dyn", "anon_s", "a_inner_2",
    "b16_full", "b8_part", "b32_sw8", "b16_sw8_2", "d_blk", "be8", "bi8",
]


class Program:
    __slots__ = ("kinds", "endian", "align", "text", "union", "pointer")

    def __init__(self, kinds, endian="<", align=False, union=False, pointer=None):
        self.kinds = tuple(kinds)
        self.endian = endian
        self.align = align
        self.union = union
        self.pointer = pointer
        body = " ".join(KINDS[k].format(n=f"f{i}") for i, k in enumerate(kinds))
        self.text = PREAMBLE + ("union" if union else "struct") + " T { " + body + " };"

    def key(self):
        return f"{'U' if self.union else 'S'}[{','.join(self.kinds)}]{self.endian}{'A' if self.align else 'P'}" + (
            f"@{self.pointer}" if self.pointer else ""
        )

    def load(self, compiled: bool):
        from dissect.cstruct import cstruct

        cs = cstruct(endian=self.endian, pointer=self.pointer)
        cs.load(self.text, compiled=compiled, align=self.align)
        return cs

    def to_json(self):
        return {"kinds": list(self.kinds), "endian": self.endian, "align": self.align, "union": self.union,
                "pointer": self.pointer, "definition": self.text}

    @staticmethod
    def from_json(d):
        return Program(d["kinds"], d["endian"], d["align"], d.get("union", False), d.get("pointer"))


def valid_sequence(kinds):
    # an [EOF] array is only meaningful as the last field
    for k in kinds[:-1]:
        if k in EOF_KINDS:
            return False
    if len(kinds) > 1 and any(k in SINGLE_ONLY for k in kinds):
        return False
    return True


def enumerate_programs(alphabet, maxlen, endians=("<", ">"), aligns=(False, True)):
    out = []
    for n in range(1, maxlen + 1):
        for seq in itertools.product(alphabet, repeat=n):
            if not valid_sequence(seq):
                continue
            for e in endians:
                for a in aligns:
                    out.append(Program(seq, e, a))
    return out


def sample_programs(alphabet, count, minlen, maxlen, seed, endians=("<", ">"), aligns=(False, True)):
    rnd = random.Random(seed)
    out = []
    while len(out) < count:
        n = rnd.randint(minlen, maxlen)
        seq = tuple(rnd.choice(alphabet) for _ in range(n))
        if not valid_sequence(seq):
            continue
        out.append(Program(seq, rnd.choice(endians), rnd.choice(aligns)))
    return out
