"""C07 - array length semantics."""
from __future__ import annotations

from checks.common import Report
from checks.t2util import T2_ASSUMPTIONS, T2_RULE, programs_for, run_pipeline
from pyvc.harness import run_cases
from t2 import sets


def has_arr(p):
    return any(k in sets.ARRAY_KINDS for k in p.kinds)


def run(tier, seed):
    rep = Report("C07", tier, seed, "proof", "./vf check C07 --tier " + tier)
    from contracts import leaf

    specs = leaf.array_specs(tier) + [("contracts.arrays", "make_arr", (w,)) for w in ("length-resolution", "write-size-check", "c-order", "sentinel")]
    specs += [("contracts.cstructfns", "make_fn", ("make_array",)), ("contracts.cstructfns", "make_fn", ("make_array_identity",))]
    rep.add_case_results(run_cases(specs), "T1")
    progs = sets.focused_programs(sorted(sets.ARRAY_KINDS), seed, tier=tier)
    rep.add_case_results(run_cases([("t2.cases", "make_rel", (p.to_json(),)) for p in progs]), "T2")
    rep.add_case_results(run_cases([("t2.cases", "make_arrsem", (p.to_json(),)) for p in progs if len(p.kinds) == 1]), "T2")
    run_pipeline(rep, progs, ["C01"])
    # the size check is reached through the enclosing structure too: a fixed-size (non character) array member holding
    # another number of elements - zero included - is refused when the structure is dumped
    from dissect.cstruct.exceptions import ArraySizeError
    from runtime.bounded import Bounded

    b = Bounded("wrong-length-refused-through-the-structure", "static array kinds of family F x assigned lengths {0, 1, n-1, n+1, 2n} x both readers' values")
    for kind in ("a_u16_3", "a_i24_2", "a_e8_2", "a_e24_2", "a_ptr_2", "a_f32_2", "a2d", "a2d_i24", "a_inner_2", "a_pnode_2"):
        for compiled in (False, True):
            try:
                from t2.family import Program

                T = Program(["u8", kind, "u16"], "<", False).load(compiled).T
                v = T(bytes((i * 11 + 3) % 251 + 1 for i in range(64)))
                name = next(f._name for f in T.__fields__ if isinstance(getattr(v, f._name), list))
                orig = list(getattr(v, name))
                n = len(orig)
            except Exception as e:  # noqa: BLE001
                b.case((kind, compiled, "setup"), False, observed=f"raises {type(e).__name__}: {e}", inputs={"kind": kind})
                continue
            for ln in sorted({0, 1, n - 1, n + 1, 2 * n} - {n}):
                try:
                    w = T(bytes((i * 11 + 3) % 251 + 1 for i in range(64)))
                    setattr(w, name, (orig * 3)[:ln])
                    out = w.dumps()
                    ok, obs = False, f"{name} holds {ln} elements instead of {n}: dumps() returned {out.hex()}"
                except ArraySizeError:
                    ok, obs = True, None
                except Exception as e:  # noqa: BLE001
                    ok, obs = False, f"{name} holds {ln} elements instead of {n}: raises {type(e).__name__} instead of ArraySizeError"
                b.case((kind, compiled, ln), ok, observed=obs, inputs={"definition": T.__name__, "kind": kind, "assigned_length": ln, "declared": n})
    b.add_to(rep)
    rep.extra["rule"] = "array programs of family F: four length forms x element kinds (packed ints, int24/48, char, wchar, enum, pointer, float, struct, nested array, LEB128), both readers"
    rep.extra["explanation"] = (
        "T1: BaseArray._read resolves the count (int / max(0, expression over earlier fields, then constants) / null-terminated / EOF "
        "sentinel unreachable by a legitimate count), BaseArray._write refuses a wrong static size (not for character arrays), "
        "_read_array consumes exactly count*size bytes for every symbolic count, _read_0 stops at and consumes the first zero element, "
        "_write_0 re-appends one zero element, x[a][b] nests in C order; T2: element count/boundaries/position per array program "
        "against the reference, compiled == interpreted, round trip."
    )
    rep.assumptions += T2_ASSUMPTIONS
    return rep
