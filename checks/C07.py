"""C07 - array length semantics."""
from __future__ import annotations

from checks.common import Report
from checks.t2util import T2_ASSUMPTIONS, T2_RULE, programs_for, run_pipeline
from pyvc.harness import run_cases
from t2 import sets


def has_arr(p):
    return any(k in sets.ARRAY_KINDS for k in p.kinds)


def run(tier, seed):
    rep = Report("C07", tier, seed, "proof", "./vf check C07 --tier " + tier)
    from contracts import leaf

    specs = leaf.array_specs(tier) + [("contracts.arrays", "make_arr", (w,)) for w in ("length-resolution", "write-size-check", "c-order", "sentinel")]
    specs += [("contracts.cstructfns", "make_fn", ("make_array",)), ("contracts.cstructfns", "make_fn", ("make_array_identity",))]
    rep.add_case_results(run_cases(specs), "T1")
    progs = sets.focused_programs(sorted(sets.ARRAY_KINDS), seed, tier=tier)
    rep.add_case_results(run_cases([("t2.cases", "make_rel", (p.to_json(),)) for p in progs]), "T2")
    rep.add_case_results(run_cases([("t2.cases", "make_arrsem", (p.to_json(),)) for p in progs if len(p.kinds) == 1]), "T2")
    run_pipeline(rep, progs, ["C01"])
    rep.extra["rule"] = "array programs of family F: four length forms x element kinds (packed ints, int24/48, char, wchar, enum, pointer, float, struct, nested array, LEB128), both readers"
    rep.extra["explanation"] = (
        "T1: BaseArray._read resolves the count (int / max(0, expression over earlier fields, then constants) / null-terminated / EOF "
        "sentinel unreachable by a legitimate count), BaseArray._write refuses a wrong static size (not for character arrays), "
        "_read_array consumes exactly count*size bytes for every symbolic count, _read_0 stops at and consumes the first zero element, "
        "_write_0 re-appends one zero element, x[a][b] nests in C order; T2: element count/boundaries/position per array program "
        "against the reference, compiled == interpreted, round trip."
    )
    rep.assumptions += T2_ASSUMPTIONS
    return rep
