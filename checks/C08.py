"""C08 (T2 part)."""
from __future__ import annotations

from checks.common import Report
from checks.t2util import T2_ASSUMPTIONS, T2_RULE, programs_for, run_pipeline


def run(tier, seed):
    rep = Report("C08", tier, seed, "proof", "./vf check C08 --tier " + tier)
    from contracts import bitbuffer, leaf
    from pyvc.harness import run_cases

    arr = [sp for sp in leaf.array_specs(tier) if sp[1] != "make_array" or sp[2][2] in ("read_array_n", "read_array_eof", "read_0")]
    rep.add_case_results(run_cases(leaf.specs(("weak",), tier) + bitbuffer.weak_specs() + arr), "T1")
    progs = programs_for(tier, seed)
    run_pipeline(rep, progs, ["C08"])
    rep.extra["explanation"] = (
        "T1 (weak stream contract: read(n) may deliver any 0..n bytes or raise): every leaf reader and BitBuffer.read return only if "
        "every read delivered exactly what was asked, raise EOFError on a short delivery and let a stream fault propagate; the array entry "
        "points (_read_array with a symbolic count, [EOF], null-terminated) return only when count*size bytes (resp. a terminator) were "
        "available and raise EOFError otherwise; T2 per "
        "definition: no short read is accepted on a returning path, a premature end is signalled as EOFError, and for L' >= L (a longer "
        "input sharing the prefix) the path condition still holds and the value terms do not depend on the length ([EOF] arrays aside)"
    )
    rep.extra["rule"] = T2_RULE
    rep.assumptions += T2_ASSUMPTIONS
    return rep
