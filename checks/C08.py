"""C08 (T2 part)."""
from __future__ import annotations

from checks.common import Report
from checks.t2util import T2_ASSUMPTIONS, T2_RULE, programs_for, run_pipeline


def run(tier, seed):
    rep = Report("C08", tier, seed, "proof", "./vf check C08 --tier " + tier)
    from contracts import bitbuffer, leaf
    from pyvc.harness import run_cases

    arr = [sp for sp in leaf.array_specs(tier) if sp[1] != "make_array" or sp[2][2] in ("read_array_n", "read_array_eof", "read_0")]
    rep.add_case_results(run_cases(leaf.specs(("weak",), tier) + bitbuffer.weak_specs() + arr), "T1")
    progs = programs_for(tier, seed)
    run_pipeline(rep, progs, ["C08"])
    # truncation through the public call forms (T(x), T.read, T.reads on buffers and streams), at every cut: a value that is
    # returned from a cut input must be the value of the complete input, anything else must raise
    import io

    from runtime.bounded import Bounded
    from runtime.sig import repr_value
    from t2 import sets
    from t2.family import Program

    b = Bounded("truncation-through-call-forms", "family F singles + (char | char[4] | int24) x (u8, u32, i24, a_char_4) pairs, both readers: every cut length 0..extent-1 x {T(bytes), T(bytearray), T.reads, T.read(stream), T(stream)}")
    tprogs = [p for p in sets.singles(endians=("<",), aligns=(False,)) if not any(k in sets.EOF_KINDS for k in p.kinds)]
    tprogs += [Program([a, q], "<", al) for a in ("char", "a_char_4", "i24", "wchar") for q in ("u8", "u32", "i24", "a_char_4") for al in (False, True)]
    full = bytes((i * 29 + 7) % 250 + 1 for i in range(24)) + bytes(8) + bytes((i * 13 + 1) % 250 + 1 for i in range(16))
    for p in tprogs:
        for compiled in (False, True):
            try:
                T = p.load(compiled).T
                s0 = io.BytesIO(full)
                ref = T._read(s0)
                extent = s0.tell()
                want = repr_value(ref)
            except Exception:  # noqa: BLE001
                continue
            from t2.cases import data_extent

            need = data_extent(T) if T.size is not None else extent
            for cut in range(0, need):
                data = full[:cut]
                bad = []
                for form, fn in (("T(bytes)", lambda d: T(d)), ("T(bytearray)", lambda d: T(bytearray(d))), ("T.reads", lambda d: T.reads(d)),
                                 ("T.read(stream)", lambda d: T.read(io.BytesIO(d))), ("T(stream)", lambda d: T(io.BytesIO(d)))):
                    try:
                        got = repr_value(fn(data))
                        if got != want:
                            bad.append(f"{form} returns {str(got)[:120]} from {cut} of {need} data bytes (complete input gives {str(want)[:120]})")
                    except Exception:  # noqa: BLE001 - refusing a cut input is what is asked (the exception type is the T2 clause)
                        pass
                b.case((p.key(), compiled, cut), not bad, observed="; ".join(bad)[:500], inputs={"definition": p.text.split(chr(10))[-1], "compiled": compiled, "cut": cut, "data": data.hex()})
    b.add_to(rep)
    rep.extra["explanation"] = (
        "T1 (weak stream contract: read(n) may deliver any 0..n bytes or raise): every leaf reader and BitBuffer.read return only if "
        "every read delivered exactly what was asked, raise EOFError on a short delivery and let a stream fault propagate; the array entry "
        "points (_read_array with a symbolic count, [EOF], null-terminated) return only when count*size bytes (resp. a terminator) were "
        "available and raise EOFError otherwise; T2 per "
        "definition: no short read is accepted on a returning path, a premature end is signalled as EOFError, and for L' >= L (a longer "
        "input sharing the prefix) the path condition still holds and the value terms do not depend on the length ([EOF] arrays aside)"
    )
    rep.extra["rule"] = T2_RULE
    rep.assumptions += T2_ASSUMPTIONS
    return rep
