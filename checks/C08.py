"""C08 (T2 part)."""
from __future__ import annotations

from checks.common import Report
from checks.t2util import T2_ASSUMPTIONS, T2_RULE, programs_for, run_pipeline


def run(tier, seed):
    rep = Report("C08", tier, seed, "proof", "./vf check C08 --tier " + tier)
    progs = programs_for(tier, seed)
    run_pipeline(rep, progs, ["C08"])
    rep.extra["rule"] = T2_RULE
    rep.assumptions += T2_ASSUMPTIONS
    return rep
