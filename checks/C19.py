"""C19 - utilities: hexdump lossless, colour cosmetic, pack/unpack/swap inverses."""
from __future__ import annotations

import enum

import itertools
import random
import re

from checks.common import Report
from pyvc.harness import run_cases
from runtime.bounded import Bounded

ANSI = re.compile(r"\033\[[0-9;]*m")


def parse_dump(text, prefix=""):
    """hexdump text -> (offsets, bytes) ; raises on malformed lines"""
    data = bytearray()
    offs = []
    for line in text.split("\n"):
        assert line.startswith(prefix), line
        line = line[len(prefix):]
        off, rest = line[:8], line[8:]
        offs.append(int(off, 16))
        assert rest[:2] == "  "
        hexpart = rest[2:2 + 49]
        cells = hexpart.split()
        assert len(cells) <= 16
        data += bytes(int(c, 16) for c in cells)
    return offs, bytes(data)


def run(tier, seed):
    from dissect.cstruct import cstruct, utils

    rep = Report("C19", tier, seed, "other", "./vf check C19 --tier " + tier)
    from contracts import utilsfns

    rep.add_case_results(run_cases(utilsfns.specs(tier)), "T1")
    rnd = random.Random(seed)
    b = Bounded("hexdump", "all lengths 0..49 x offsets {0,1,15,16,4096} x prefixes x palettes partitioning the data into <= 4 runs incl. zero-length entries")
    maxlen = 50 if tier == "quick" else 70
    for n in range(0, maxlen):
        data = bytes((rnd.randrange(256) if i % 3 else (i * 37) % 256) for i in range(n))
        for off in (0, 1, 15, 16, 4096):
            for prefix in ("", "> ", "{0} ", "{{x}} ", "%s|", "{"):
                ok = True
                obs = None
                try:
                    plain = utils.hexdump(data, offset=off, prefix=prefix, output="string")
                    if n:
                        offs, back = parse_dump(plain, prefix)
                        ok = back == data and offs == [off + 16 * i for i in range((n + 15) // 16)]
                        obs = f"parsed back {back.hex()} offsets {offs}"
                    else:
                        ok = plain == ""
                except Exception as e:  # noqa: BLE001
                    ok, obs = False, f"unparsable: {e!r}"
                b.case(("plain", n, off, prefix), ok, observed=obs, inputs={"data": data.hex(), "offset": off, "prefix": prefix})
        # palettes
        cuts = sorted({0, 1, n // 2, n - 1 if n else 0, n})
        pals = []
        for k in range(1, 4):
            for combo in itertools.combinations_with_replacement(cuts, k):
                sizes = []
                prev = 0
                for c in combo:
                    sizes.append(max(0, c - prev))
                    prev = max(prev, c)
                pals.append([(sz, [utils.COLOR_BG_RED, utils.COLOR_BG_GREEN, utils.COLOR_BG_BLUE][i % 3]) for i, sz in enumerate(sizes)])
        plain = utils.hexdump(data, output="string")
        for pal in pals[: (20 if tier == "quick" else 60)]:
            try:
                col = utils.hexdump(data, palette=list(pal), output="string")
                stripped = ANSI.sub("", col)
                # colour is cosmetic: stripping the colour codes gives the uncoloured dump (modulo trailing blanks of the hex column)
                same = [a.rstrip() for a in stripped.split("\n")] == [a.rstrip() for a in plain.split("\n")]
                ok = same and (parse_dump(stripped)[1] == data if n else True)
                obs = None if ok else f"coloured/stripped differs: {stripped!r} vs {plain!r}"
            except Exception as e:  # noqa: BLE001
                ok, obs = False, f"raises {e!r}"
            b.case(("palette", n, tuple(s for s, _ in pal)), ok, observed=obs, inputs={"data": data.hex(), "palette_sizes": [s for s, _ in pal]})
    b.add_to(rep)
    pk = Bounded("pack-without-size-and-out-of-range", "values -70000..70000 (every value near a power of two, every 37th otherwise) and +-2**k+-1 up to 2**70, size omitted / widths 8..64, four spellings: unpack inverts pack whenever pack returns; a value that does not fit the requested width raises OverflowError")
    cand = sorted({v for k in range(0, 71) for v in ((1 << k) - 1, 1 << k, (1 << k) + 1, -(1 << k) - 1, -(1 << k), -(1 << k) + 1)} | set(range(-70000, 70001, 37)) | set(range(-300, 301)))
    for v in cand:
        for sp in ("little", "big", "<", "!"):
            try:
                raw = utils.pack(v, None, sp)
                back = utils.unpack(raw, None, sp, v < 0)
                ok, obs = back == v, f"pack({v}) = {raw.hex()}, unpack(.., sign={v < 0}) = {back}"
            except OverflowError:
                ok, obs = True, None  # refusing is allowed, altering is not
            except Exception as e:  # noqa: BLE001
                ok, obs = False, f"pack({v}) raises {type(e).__name__}: {e}"
            pk.case((v, sp, None), ok, observed=obs, inputs={"value": v, "endian": sp, "size": None})
        if abs(v) <= 1 << 66:
            for bits in (8, 16, 24, 32, 64):
                fits = -(1 << (bits - 1)) <= v < (1 << bits)
                try:
                    raw = utils.pack(v, bits, "little")
                    ok = fits and len(raw) == bits // 8 and utils.unpack(raw, bits, "little", v < 0) == v
                    obs = f"pack({v}, {bits}) = {raw.hex()} (fits={fits})"
                except OverflowError:
                    ok, obs = not fits, f"pack({v}, {bits}) raises OverflowError although the value fits"
                except Exception as e:  # noqa: BLE001
                    ok, obs = False, f"pack({v}, {bits}) raises {type(e).__name__}: {e}"
                pk.case((v, bits), ok, observed=obs, inputs={"value": v, "size": bits})
    pk.add_to(rep)
    d = Bounded("dumpstruct", "structures of family F (fixed and dynamic, bit-fields, enums, arrays, nested, anonymous) x colour on/off x parsed instance / class+data")
    from t2 import sets

    progs = [p for p in sets.singles(endians=("<",), aligns=(False, True))]
    for p in progs:
        try:
            cs = p.load(False)
        except Exception:  # noqa: BLE001
            continue
        T = cs.T
        data = bytes((i * 29 + 7) % 251 for i in range(64))
        if any(k.startswith("z_") for k in p.kinds):
            data = bytes([1, 2, 3, 4, 5, 6, 0, 0, 0, 0, 0, 0]) + data
        try:
            v = T(data)
            raw = v.dumps()
        except Exception:  # noqa: BLE001
            continue
        for color in (False, True):
            for form in ("instance", "class+data"):
                try:
                    out = utils.dumpstruct(v, color=color, output="string") if form == "instance" else utils.dumpstruct(T, raw, color=color, output="string")
                    txt = ANSI.sub("", out)
                    parts = txt.split("\n\n")
                    dump = parts[0].strip("\n")
                    body = txt[txt.index("struct "):]
                    shown = parse_dump(dump)[1] if raw else b""
                    names = [f._name for f in T.__fields__]
                    listed = re.findall(r"^- ([^:]+):", body, re.M)
                    ok = shown == raw and listed == names
                    obs = None if ok else f"hexdump shows {shown.hex()} for {raw.hex()}; fields listed {listed} vs {names}"
                    # ... with its value: integers are listed in hex
                    cur = T(raw) if form == "class+data" else v
                    for f in T.__fields__:
                        val = getattr(cur, f._name)
                        if type(val).__mro__[-2] is int or (isinstance(val, int) and not isinstance(val, (enum.Enum,)) and type(val).__name__ != "Pointer" and not hasattr(val, "dereference")):
                            m = re.search(rf"^- {re.escape(f._name)}: (.*)$", body, re.M)
                            if not m or m.group(1).strip() != hex(val):
                                ok, obs = False, f"field {f._name} listed as {m.group(1) if m else None!r}, value is {hex(val)}"
                except Exception as e:  # noqa: BLE001
                    ok, obs = False, f"raises {type(e).__name__}: {e}"
                d.case((p.key(), color, form), ok, observed=obs, inputs={"definition": p.text.split(chr(10))[-1], "color": color, "form": form})
    # the listing follows the current values: parse, assign an integer field, dump again
    for p in progs:
        try:
            cs = p.load(False)
            T = cs.T
            v = T(bytes((i * 29 + 7) % 251 for i in range(64)))
        except Exception:  # noqa: BLE001
            continue
        if p.union or T.dynamic:
            continue
        for f in T.__fields__:
            val = getattr(v, f._name)
            if type(val).__name__ in ("int", ) or (isinstance(val, int) and not isinstance(val, enum.Enum) and not hasattr(val, "dereference") and not f.bits):
                try:
                    new = 1 if int(val) != 1 else 2
                    setattr(v, f._name, type(val)(new) if type(val) is not int else new)
                    out = ANSI.sub("", utils.dumpstruct(v, output="string"))
                    body = out[out.index("struct "):]
                    m = re.search(rf"^- {re.escape(f._name)}: (.*)$", body, re.M)
                    shown = parse_dump(out.split("\n\n")[0].strip("\n"))[1]
                    ok = bool(m) and m.group(1).strip() == hex(new) and shown == v.dumps()
                    obs = None if ok else f"after {f._name} = {new}: listed {m.group(1) if m else None!r}; hexdump {shown.hex()} vs dumps {v.dumps().hex()}"
                except Exception as e:  # noqa: BLE001
                    ok, obs = False, f"raises {type(e).__name__}: {e}"
                d.case((p.key(), "after-assignment", f._name), ok, observed=obs, inputs={"definition": p.text.split(chr(10))[-1], "assigned": f._name})
                break
    d.add_to(rep)
    rep.extra["rule"] = "hexdump: data lengths x offsets x prefixes x palettes; dumpstruct: family F singles x colour x call form"
    rep.extra["explanation"] = (
        "deductive part (T1): pack/unpack/pN/uN are mutual inverses agreeing with two's complement in the requested byte order for every "
        "value that fits (all six byte-order spellings), swap reverses the bytes and is an involution, for widths 8-32 (64 in the thorough "
        "tier); hexdump/dumpstruct are string builders with a palette state machine - their clauses are bounded exhaustive checks against "
        "a dump parser, not proofs"
    )
    return rep
