"""C20 - generated type stubs are valid Python naming exactly the loaded definitions."""
from __future__ import annotations

import ast
import keyword
import random

from checks.common import Report
from runtime.bounded import Bounded

DEFSETS = [
    "struct a { uint8 x; uint16 y[2]; char name[4]; wchar w[2]; uint8 *p; };",
    "typedef struct _c { uint8 n; uint16 d[n]; char s[]; } c;",
    "enum E : uint16 { A, B = 5, C };\nflag F : uint8 { X, Y };\nstruct d { E e; E es[2]; F f:3; F g:5; };",
    "enum { ANON1 = 3, ANON2 };\n#define N 3\n#define S \"text\"\n#define B b'ab'\n#define X 0x10 + 1\nstruct e { uint8 v[N]; };",
    "typedef uint32 DW;\ntypedef DW DW2;\ntypedef uint8 arr_t[4];\ntypedef uint16 *ptr_t;\nstruct f { DW2 a; arr_t b; ptr_t c; };",
    "struct g { struct { uint8 a; uint8 b; } inn; union { uint16 w; uint8 h[2]; }; struct { uint8 q; } arr[2]; };",
    "union u { uint32 a; struct { uint16 lo; uint16 hi; } parts; };",
    "struct h { uint24 a; int48 b; uint48 c; uint128 d; uleb128 e; float16 f; double g; void v; };",
    "struct node { uint8 v; node *next; };",
    "struct i { uint8 m[2][3]; uint8 *pp[2]; inner_t z; };".replace("inner_t", "uint8"),
    "typedef uint8 *p1;\ntypedef uint8 *p2;\ntypedef uint16 a1[2];\ntypedef uint16 a2[2];\nstruct j { p1 a; a2 b; };",
    "struct k { struct { uint8 v; } *n; struct { uint8 w; } cells[2][3]; };",
    "struct g1 { uint8 a; };\nstruct useg { g1 arr[2]; g1 *p; g1 one; };",
    "enum Color { RED, GREEN };\ntypedef Color Colour;\ntypedef Colour Kleur;\nflag Perm { R, W };\ntypedef Perm Mode;",
    "flag Acc : uint16 { NONE = 0, R = 1, W = 2, RW = R | W, X = 4, ALL = 0xffff };\nenum Dup : uint8 { P = 1, Q = 1, Z = 0 };\nstruct m { Acc a; Dup d; };",
    "struct deep { union { struct { uint8 a; uint8 b; }; uint16 c; }; uint8 d; struct { struct { uint8 e; }; uint8 f; }; };",
    "enum { OK = 0, SUCCESS = 0, FAILURE };\nflag { FA = 1, FB = 1, FC };\nstruct usesok { uint8 v[FAILURE + 1]; };",
    "typedef struct { uint8 a; uint16 b; } TA, TB;\ntypedef union { uint8 k; uint16 l; } ua, ub, UC;\nstruct usesab { TA x; TB y; UC z; };",
    "struct tagged { struct Entry { uint8 a; uint8 b; } entries[2]; struct E2 { uint8 c; } *next; struct E3 { uint16 d; } one; union U4 { uint8 e; uint16 f; } u; };",
]


def run(tier, seed):
    from dissect.cstruct import cstruct
    from dissect.cstruct.tools import stubgen
    from dissect.cstruct.types import BaseArray, Enum, Flag, Pointer, Structure

    rep = Report("C20", tier, seed, "exploration", "./vf check C20 --tier " + tier)
    b = Bounded("stub-validity-and-names", f"{len(DEFSETS)} definition sets (+ all pairs of them loaded together, + family F singles) through generate_cstruct_stub")
    sets_ = list(DEFSETS)
    rnd = random.Random(seed)
    pairs = [(i, j) for i in range(len(DEFSETS)) for j in range(len(DEFSETS)) if i < j]
    rnd.shuffle(pairs)
    for i, j in pairs[: (12 if tier == "quick" else len(pairs))]:
        if "struct node" in DEFSETS[i] + DEFSETS[j] and False:
            continue
        sets_.append(DEFSETS[i] + "\n" + DEFSETS[j])
    from t2 import sets as t2sets

    fam = [p.text for p in t2sets.singles(endians=("<",), aligns=(False,))]
    for text in sets_ + fam[:: (3 if tier == "quick" else 1)]:
        cs = cstruct()
        try:
            cs.load(text)
        except Exception:  # noqa: BLE001
            continue
        base = cstruct()
        problems = []
        try:
            stub = stubgen.generate_cstruct_stub(cs)
        except Exception as e:  # noqa: BLE001
            b.case(text, False, observed=f"generator raises {type(e).__name__}: {e}", inputs=text)
            continue
        try:
            tree = ast.parse(stub)
        except SyntaxError as e:
            b.case(text, False, observed=f"not valid Python: {e.msg} at line {e.lineno}: {stub.splitlines()[e.lineno - 1] if e.lineno else ''}", inputs=text)
            continue
        cls = tree.body[0]
        declared = {}
        for node in cls.body:
            if isinstance(node, ast.ClassDef):
                declared[node.name] = node
            elif isinstance(node, ast.AnnAssign) and isinstance(node.target, ast.Name):
                declared[node.target.id] = node
        user_types = {k for k in cs.typedefs if k not in base.typedefs and k.isidentifier() and not keyword.iskeyword(k)}
        user_consts = {k for k in cs.consts if k not in base.consts}
        missing = (user_types | user_consts) - set(declared)
        extra = {k for k in declared if k not in cs.typedefs and k not in cs.consts}
        if missing:
            problems.append(f"not declared: {sorted(missing)}")
        if extra:
            problems.append(f"declared but not provided: {sorted(extra)}")
        # every name a hint refers to exists: cstruct.<name> must be declared in the stub or be a built-in of cstruct,
        # a bare name must be a class inlined in the enclosing class (or a module-level name of the stub header)
        known_bare = {"CharArray", "WcharArray", "Pointer", "Array", "BinaryIO", "bytes", "memoryview", "bytearray", "None", "Literal", "TypeAlias", "overload"}
        for top in cls.body:
            if not isinstance(top, ast.ClassDef):
                continue
            inl = {n.name for n in ast.walk(top) if isinstance(n, ast.ClassDef)}
            for node in ast.walk(top):
                if isinstance(node, ast.AnnAssign):
                    for ref in ast.walk(node.annotation):
                        if isinstance(ref, ast.Attribute) and isinstance(ref.value, ast.Name) and ref.value.id == "cstruct":
                            if ref.attr not in declared and ref.attr not in base.typedefs:
                                problems.append(f"hint refers to undeclared cstruct.{ref.attr}")
                        elif isinstance(ref, ast.Name) and ref.id not in known_bare and ref.id not in inl and ref.id != "cstruct":
                            problems.append(f"hint refers to unknown name {ref.id}")
        # field hints name the field's actual type; enum / flag classes list exactly the declared members
        for name in user_types:
            t = cs.resolve(name)
            node = declared.get(name)
            if isinstance(t, type) and issubclass(t, (Enum, Flag)) and isinstance(node, ast.ClassDef) and t.__name__ == name:
                listed = [n.targets[0].id for n in node.body if isinstance(n, ast.Assign) and isinstance(n.targets[0], ast.Name)]
                if listed != list(t.__members__):
                    problems.append(f"{name}: members listed {listed}, defined {list(t.__members__)}")
            if isinstance(t, type) and issubclass(t, Structure) and isinstance(node, ast.ClassDef) and t.__name__ == name:
                hints = {n.target.id: ast.unparse(n.annotation) for n in node.body if isinstance(n, ast.AnnAssign) and isinstance(n.target, ast.Name)}
                for fname, f in folded_fields(t).items():
                    want = expected_hint(f.type)
                    got = hints.get(fname)
                    if got is None:
                        problems.append(f"{name}.{fname}: no hint")
                    elif want is not None and want not in got.replace("cstruct.", ""):
                        problems.append(f"{name}.{fname}: hint {got!r} does not name {want!r}")
        b.case(text, not problems, observed="; ".join(problems)[:400], inputs=text)
    b.add_to(rep)
    rep.extra["rule"] = "definition sets (structs, unions, nested/anonymous members, enums, flags, typedef chains, arrays, pointers, constants of several literal types); distinct = definition text"
    rep.extra["explanation"] = (
        "'syntactically valid Python' is a context-free property of generated text and the emitters are string builders over class names: "
        "no contract within reach of the SMT back ends decides it (string obligations of this size stay unknown). The check is therefore a "
        "bounded exploration: ast.parse of the stub, declared names == user-defined types, aliases and constants, field hints name the "
        "field's type, nothing declared that the cstruct object lacks. Domain: names that are non-keyword Python identifiers."
    )
    return rep


def expected_hint(t):
    from dissect.cstruct.types import Array, CharArray, Pointer, WcharArray

    if issubclass(t, CharArray):
        return "CharArray"
    if issubclass(t, WcharArray):
        return "WcharArray"
    if issubclass(t, Pointer):
        inner = expected_hint(t.type)
        return f"Pointer[{inner}" if inner else "Pointer["
    if issubclass(t, Array):
        inner = expected_hint(t.type)
        return f"Array[{inner}" if inner else "Array["
    n = t.__name__
    return n if n.isidentifier() else None


def folded_fields(t, depth=0):
    """name -> Field of every member reachable as an attribute: named members and, recursively, the members of unnamed
    (anonymous) struct/union members - computed from __fields__, not from the library's own folded map."""
    from dissect.cstruct.types import Structure

    out = {}
    for f in t.__fields__:
        if f.name is None and isinstance(f.type, type) and issubclass(f.type, Structure) and depth < 6:
            out.update(folded_fields(f.type, depth + 1))
        else:
            out[f._name] = f
    return out
