"""C02 (T2 part)."""
from __future__ import annotations

from checks.common import Report
from checks.t2util import T2_ASSUMPTIONS, T2_RULE, programs_for, run_pipeline


def run(tier, seed):
    rep = Report("C02", tier, seed, "proof", "./vf check C02 --tier " + tier)
    progs = programs_for(tier, seed)
    run_pipeline(rep, progs, ["C02"])
    rep.extra["rule"] = T2_RULE
    rep.assumptions += T2_ASSUMPTIONS
    return rep
