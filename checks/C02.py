"""C02 (T2 part)."""
from __future__ import annotations

from checks.common import Report
from checks.t2util import T2_ASSUMPTIONS, T2_RULE, programs_for, run_pipeline


def run(tier, seed):
    rep = Report("C02", tier, seed, "proof", "./vf check C02 --tier " + tier)
    progs = programs_for(tier, seed)
    run_pipeline(rep, progs, ["C02"])
    # the dump follows the byte order current at dump time; so must the (compiled) reader whose value is dumped: bit-field
    # programs after a byte-order switch
    from pyvc.harness import run_cases
    from t2 import sets

    sw = [p for p in sets.singles(kinds=sorted(sets.BIT_KINDS)) if not p.align]
    rep.add_case_results(run_cases([("t2.cases", "make_switch", (p.to_json(),)) for p in sw]), "T2")
    rep.extra["rule"] = T2_RULE
    rep.assumptions += T2_ASSUMPTIONS
    return rep
