"""C09 - stream discipline: position independence, consistency across input kinds and call forms."""
from __future__ import annotations

import io

from checks.common import Report
from checks.t2util import T2_ASSUMPTIONS, T2_RULE, programs_for, run_pipeline
from pyvc.harness import run_cases
from runtime.bounded import Bounded
from runtime.sig import repr_value


def run(tier, seed):
    rep = Report("C09", tier, seed, "proof", "./vf check C09 --tier " + tier)
    from contracts import leaf

    # the null-terminated readers leave the stream just past the terminator, for every length (inductive contracts); arrays with a
    # symbolic count consume count*size
    arr = [sp for sp in leaf.array_specs(tier) if sp[1] != "make_array" or sp[2][2] in ("read_array_n", "read_0")]
    rep.add_case_results(run_cases([("contracts.dispatch", "make_dispatch", ("is_eof",)), ("contracts.dispatch", "make_dispatch", ("forms",)),
                                    ("contracts.dispatch", "make_dispatch", ("forms:>",)), ("contracts.dispatch", "make_dispatch", ("forms:!",))] + arr), "T1")
    progs = programs_for(tier, seed)
    run_pipeline(rep, progs, ["C09"])
    # input kinds x call forms on the whole family (executed: the dispatch itself is proved above on representative types)
    from t2 import sets

    b = Bounded("input-kinds-and-call-forms", "family F singles + dynamic unions x {bytes, bytearray, memoryview, BytesIO at 0, BytesIO at an offset (3; 16 for aligned definitions)} x {T(x), T.read, T.reads, cs.read}; bare scalar/enum/array types x byte-order spellings {<,>,!,@,=} x the same input kinds and call forms")
    for p in sets.singles(endians=("<",), aligns=(False, True)) + sets.dynamic_unions()[::2]:
        try:
            cs = p.load(True)
        except Exception:  # noqa: BLE001
            continue
        T = cs.T
        data = bytes((i * 37 + 5) % 251 + 1 for i in range(40)) + bytes(6)
        off = 16 if p.align else 3  # the statement's premise: aligned structures are parsed at aligned positions
        results = {}
        for kind, mk in (("bytes", lambda: data), ("bytearray", lambda: bytearray(data)), ("memoryview", lambda: memoryview(data)),
                         ("stream", lambda: io.BytesIO(data)), ("stream@offset", lambda: _at(io.BytesIO(bytes(off) + data), off))):
            for form, fn in (("T(x)", lambda x: T(x)), ("T.read", lambda x: T.read(x)), ("T.reads", lambda x: T.reads(x)), ("cs.read", lambda x: cs.read("T", x))):
                if form == "T.reads" and kind.startswith("stream"):
                    continue
                try:
                    v = fn(mk())
                    results[(kind, form)] = (repr_value(v), tuple(sorted(v._sizes.items())) if hasattr(v, "_sizes") else None)
                except Exception as e:  # noqa: BLE001
                    results[(kind, form)] = ("raises", type(e).__name__)
        vals = list(results.values())
        ok = all(v == vals[0] for v in vals)
        bad = {f"{k[0]}/{k[1]}": str(v)[:120] for k, v in results.items() if v != vals[0]}
        b.case(p.key(), ok, observed=f"differs from bytes/T(x) = {str(vals[0])[:120]}: {bad}", inputs={"definition": p.text.split(chr(10))[-1], "align": p.align})
    # bare (top-level) types under every byte-order spelling, native ones included: only consistency is asked here
    from dissect.cstruct import cstruct

    data = bytes((i * 37 + 5) % 251 + 1 for i in range(40)) + bytes(6)
    for endian in ("<", ">", "!", "@", "="):
        cs = cstruct(endian=endian)
        cs.load("enum E24 : int24 { A = 1 }; enum E16 : uint16 { B = 1 }; struct S { uint24 a; int48 b; };")
        for tname in ("uint8", "int16", "uint32", "int64", "int24", "uint24", "int48", "uint48", "int128", "uint128", "float", "double", "char",
                      "wchar", "uleb128", "ileb128", "E24", "E16", "S", "uint24[2]", "int16[3]", "char[4]", "wchar[2]", "E24[2]", "uint16[]", "char[]"):
            base, _, dim = tname.partition("[")
            T = getattr(cs, base)
            if dim:
                T = T[int(dim[:-1]) if dim[:-1] else None]
            off = 3
            results = {}
            for kind, mk in (("bytes", lambda: data), ("bytearray", lambda: bytearray(data)), ("memoryview", lambda: memoryview(data)),
                             ("stream", lambda: io.BytesIO(data)), ("stream@offset", lambda: _at(io.BytesIO(bytes(off) + data), off))):
                for form, fn in (("T(x)", lambda x: T(x)), ("T.read", lambda x: T.read(x)), ("T.reads", lambda x: T.reads(x))):
                    if form == "T.reads" and kind.startswith("stream"):
                        continue
                    try:
                        v = fn(mk())
                        results[(kind, form)] = repr_value(v)
                    except Exception as e:  # noqa: BLE001
                        results[(kind, form)] = ("raises", type(e).__name__)
            vals = list(results.values())
            ok = all(v == vals[0] for v in vals)
            bad = {f"{k[0]}/{k[1]}": str(v)[:120] for k, v in results.items() if v != vals[0]}
            b.case(f"bare:{tname}{endian}", ok, observed=f"differs from bytes/T(x) = {str(vals[0])[:120]}: {bad}", inputs={"type": tname, "endian": endian})
    b.add_to(rep)
    rep.extra["rule"] = T2_RULE
    rep.extra["explanation"] = (
        "T2 per definition (all data, symbolic start offset, aligned offsets for aligned definitions): every read lies inside [p, end), "
        "parsing the window D[p:] from 0 gives the same value and _sizes and end == p + encoded size; T1: _is_eof restores the position, "
        "the dispatch functions reach the same parse for every input kind and call form on representative types; the kinds x forms "
        "matrix over the whole family is executed (bounded)."
    )
    rep.assumptions += T2_ASSUMPTIONS
    return rep


def _at(s, p):
    s.seek(p)
    return s
