"""C10 - expressions: C precedence/associativity, repeatable evaluation."""
from __future__ import annotations

import itertools
import random

from checks.common import Report
from pyvc.harness import run_cases
from runtime.bounded import Bounded
from specs import expr as ref


def gen_exprs(depth, atoms, unops, binops):
    """All expressions of the grammar up to a nesting depth (strings)."""
    level = list(atoms)
    allx = list(level)
    for _ in range(depth):
        new = []
        for u in unops:
            for a in level:
                new.append(f"{u}{a}")
        for o in binops:
            for a in level[: 12]:
                for b in level[: 12]:
                    new.append(f"{a} {o} {b}")
                    new.append(f"({a} {o} {b})")
        level = new
        allx += new
    return allx


def run(tier, seed):
    from dissect.cstruct import cstruct
    from dissect.cstruct.expression import Expression

    rep = Report("C10", tier, seed, "other", "./vf check C10 --tier " + tier)
    from contracts import exprs as _ex

    rep.add_case_results(run_cases([("contracts.exprs", "make_expr", (w,)) for w in ("tables", "evaluate_exp", "precedence", "rewrite-idempotent")] + _ex.shape_specs(tier)), "T1")
    cs = cstruct()
    cs.load("#define A 8\n#define B 13\n#define u 3\n#define A_B 6\n#define _C 2\nstruct S { uint8 a; uint32 b; };")
    sizeof = lambda n: len(cs.resolve(n))  # noqa: E731
    rnd = random.Random(seed)
    b = Bounded("expression-grammar-vs-reference", "all operator pairs/triples over a fixed atom alphabet (chains of <= 3 binary operators with unary prefixes and parentheses; operands up to 2**128; identifiers with underscores) + seeded random expressions up to 9 operators")
    atoms = ["1", "7", "0x10", "010", "0b101", "3u", "5UL", "2ll", "A", "B", "x", "u", "sizeof(S)", "sizeof(uint16)", "A_B", "_C", "x_1", "y_",
             "9007199254740993", "0xFFFFFFFFFFFFFFFF"]
    binops = ["*", "/", "%", "+", "-", "<<", ">>", "&", "^", "|"]
    unops = ["", "-", "~", "-~", "~-", "--"]
    contexts = [{"x": 5, "x_1": 3, "y_": 11}, {"x": 2, "A": 1, "x_1": 7, "y_": 1, "_C": 5}, {"x": 9, "u": 4, "x_1": 1, "y_": 2}]

    # identifier values need not be plain ints: enum / flag members and int subclasses parsed from data are used as ints
    cs.load("flag FL : uint8 { R = 1, W = 2, X = 4 }; enum EN : int16 { NEG = -2, POS = 5 };")
    contexts.append({"x": cs.FL.R, "x_1": cs.FL.W | cs.FL.X, "y_": cs.EN.NEG, "u": cs.uint8(7), "_C": cs.EN.POS})

    def check(s):
        for ci, c in enumerate(contexts):
            try:
                want = ref.evaluate(s, c, cs.consts, sizeof)
            except ref.Undefined:
                continue
            except ref.Malformed:
                continue
            try:
                e = Expression(cs, s)
                got1 = e.evaluate(c)
                got2 = e.evaluate(c)  # repeated
                other = contexts[(ci + 1) % len(contexts)]
                try:
                    e.evaluate(other)  # may legitimately fail (division by zero under that binding)
                except Exception:  # noqa: BLE001
                    pass
                got3 = e.evaluate(c)  # after a different context (or a failed evaluation)
                obs = (got1, got2, got3)
            except Exception as ex:  # noqa: BLE001
                obs = f"{type(ex).__name__}: {ex}"
            b.case((s, ci), obs == (want, want, want), observed=f"{obs} expected {want}", inputs={"expression": s, "context": c})

    small_atoms = ["2", "x", "A", "u", "12", "x_1", "_C"]
    for a1, a2 in itertools.product(small_atoms, repeat=2):
        for o in binops:
            for u1, u2 in itertools.product(unops[:4], repeat=2):
                check(f"{u1}{a1} {o} {u2}{a2}")
    trip_atoms = ["7", "x", "2"]
    for o1, o2 in itertools.product(binops, repeat=2):
        for a1, a2, a3 in itertools.product(trip_atoms, repeat=3):
            check(f"{a1} {o1} {a2} {o2} {a3}")
            check(f"{a1} {o1} ({a2} {o2} {a3})")
            check(f"-{a1} {o1} ~{a2} {o2} -{a3}")
    # operands beyond 2**53 (no detour through floating point), identifiers with underscores next to every operator
    for big in ("9007199254740993", "0xFFFFFFFFFFFFFFFF", "18014398509481985", "340282366920938463463374607431768211455"):
        for sm in ("1", "2", "3", "7", "x", "A_B", "1024"):
            for o in binops:
                if o in ("<<", ">>"):
                    check(f"{big} {o} 3")
                else:
                    check(f"{big} {o} {sm}")
                    check(f"{big} * {sm} {o} {sm}")
    for name in ("x", "x_1", "y_", "u"):
        check(f"~{name}")
        check(f"~{name} & 0xff")
        check(f"-{name} + 1")
        check(f"({name} | 8) ^ {name}")
    for name in ("x_1", "y_", "_C", "A_B"):
        for o in binops:
            check(f"{name} {o} 2")
            check(f"{name} {o} -2")
            check(f"7 {o} {name} - 1")
            check(f"({name}) {o} {name}")
    if tier == "thorough":
        for o1, o2, o3 in itertools.product(binops, repeat=3):
            check(f"7 {o1} x {o2} 2 {o3} 3")
            check(f"(7 {o1} x) {o2} (2 {o3} 3)")
    for a in atoms:
        for u1 in unops:
            check(f"{u1}{a}")
            check(f"{u1}({a})")
    n_random = 1500 if tier == "quick" else 20000
    for _ in range(n_random):
        n = rnd.randint(2, 9)
        parts = []
        depth = 0
        for i in range(n):
            if rnd.random() < 0.3:
                parts.append(rnd.choice(["-", "~"]))
            if rnd.random() < 0.25:
                parts.append("(")
                depth += 1
            parts.append(rnd.choice(atoms))
            if depth and rnd.random() < 0.4:
                parts.append(")")
                depth -= 1
            if i < n - 1:
                parts.append(rnd.choice(binops))
        parts += [")"] * depth
        check(" ".join(parts).replace("- ", "-").replace("~ ", "~"))
    b.add_to(rep)
    # tokenizer: literal forms
    t = Bounded("integer-literal-forms", "dec/hex/oct/bin x suffixes {'',u,U,l,L,ul,lu,ll,ull,LLU} x values")
    for base, fmt in (("dec", "{}"), ("hex", "0x{:x}"), ("HEX", "0X{:X}"), ("oct", "0{:o}"), ("bin", "0b{:b}")):
        for v in (0, 1, 7, 8, 9, 10, 15, 16, 255, 256, 4095, 65536, 2**40 + 3):
            for suf in ("", "u", "U", "l", "L", "ul", "UL", "lu", "ll", "ull", "llu", "LLU"):
                s = fmt.format(v) + suf
                if base == "oct" and v == 0:
                    continue
                try:
                    got = Expression(cs, s).evaluate()
                except Exception as ex:  # noqa: BLE001
                    got = f"{type(ex).__name__}"
                t.case(s, got == v, observed=f"{got} expected {v}", inputs=s)
    t.add_to(rep)
    rep.extra["rule"] = "grammar-generated expression strings x 3 identifier bindings x (fresh, repeated, after-other-context) evaluation; distinct = distinct (expression, binding)"
    rep.extra["explanation"] = (
        "deductive part (T1): operator/precedence tables equal the C table, each operator lambda equals the C operation, evaluate_exp "
        "pops one operator and applies it with left = second-from-top, right = top, the unary-minus rewrite is idempotent; the "
        "'for every token sequence' clause is NOT proved: it is a bounded exhaustive/random comparison of the real evaluator with an "
        "independent precedence-climbing reference (specs/expr.py)"
    )
    rep.assumptions += ["/ and % are compared only for non-negative dividend and positive divisor, shifts only for counts 0..256 (as the statement says)"]
    return rep
