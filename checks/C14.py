"""C14 - no hidden shared state."""
from __future__ import annotations

import copy
import io
import random

from checks.common import Report
from pyvc.harness import run_cases
from runtime.bounded import Bounded
from runtime.sig import cs_sig, repr_value

KINDS = {
    "array": "uint8 a[2];", "array2d": "uint8 a[2][2];", "array3d": "uint16 a[2][3][2];", "structarray2d": "inner a[2][2];", "enumarray2d": "E8 a[3][2];", "nested": "struct { uint8 x; uint8 y; } a;", "anon": "struct { uint8 x; };",
    "anon2": "uint8 k; struct { uint8 x; uint8 pad[2]; }; uint8 t;", "anonunion": "union { uint16 w; uint8 h[2]; };",
    "union": "union { uint16 w; uint8 h[2]; } a;", "chararray": "char a[4];", "wchararray": "wchar a[2];", "int": "uint32 a;",
    "lead_array": "uint8 k; uint8 a[2]; inner n;", "lead_2d": "uint32 k; uint8 a[2][2];",
    "enum": "E8 a;", "pointer": "uint8 *a;", "structarray": "inner a[2];", "enumarray": "E8 a[2];", "float": "float a;", "dynarray": "uint8 n; uint8 a[n];",
}
PRE = "struct inner { uint8 ia; uint16 ib; }; enum E8 : uint8 { A = 1 };\n"


def aliases(obj):
    """Mutable sub-objects (lists, structures) reachable twice from one instance: cells that would change together."""
    from dissect.cstruct.types import Structure

    seen = {}
    dup = []

    def walk(v, path, depth=0):
        if type(v).__name__ == "UnionProxy":
            v = object.__getattribute__(v, "__target__")
        if depth > 6 or not isinstance(v, (list, Structure)):
            return
        if id(v) in seen:
            dup.append(f"{seen[id(v)]} is {path}")
            return
        seen[id(v)] = path
        if isinstance(v, list):
            for i, x in enumerate(v):
                walk(x, f"{path}[{i}]", depth + 1)
        elif not hasattr(type(v), "_buf"):  # members of a union are views of one buffer by design
            for n in type(v).lookup:
                walk(v.__dict__.get(n, getattr(v, n, None)), f"{path}.{n}", depth + 1)

    walk(obj, "v")
    return dup


def _union_base():
    from dissect.cstruct.types import Union

    return Union


def mutate(obj, depth=0):
    """Mutate every mutable thing reachable from a default-constructed instance; returns number of mutations."""
    from dissect.cstruct.types import Structure

    n = 0
    if depth > 4:
        return 0
    # members of anonymous nested structures are reached through forwarded properties
    for f in type(obj).__fields__:
        if f.name is None and hasattr(f.type, "fields") and not hasattr(type(obj), "_buf") and not issubclass(type(obj), _union_base()):
            for sub, sf in f.type.fields.items():
                if isinstance(getattr(obj, sub, None), int):
                    try:
                        setattr(obj, sub, 66)
                        n += 1
                    except Exception:  # noqa: BLE001
                        pass
                    break
    for name in type(obj).fields:
        v = getattr(obj, name)
        if type(v).__name__ == "UnionProxy":
            v = object.__getattribute__(v, "__target__")
        if isinstance(v, list):
            if v:
                if isinstance(v[0], list):
                    v[0][0] = 77
                elif isinstance(v[0], Structure):
                    n += mutate(v[0], depth + 1)
                else:
                    try:
                        v[0] = type(v[0])(77) if not isinstance(v[0], int) or type(v[0]) is int else 77
                    except Exception:  # noqa: BLE001
                        v[0] = 77
            v.append(99) if not v else None
            n += 1
        elif isinstance(v, Structure):
            n += mutate(v, depth + 1)
            for sub in type(v).fields:
                sv = getattr(v, sub)
                if isinstance(sv, int) and not isinstance(sv, bool) and type(v).dynamic is False and not hasattr(type(v), "_buf"):
                    try:
                        object.__setattr__(v, sub, 55)
                        n += 1
                    except Exception:  # noqa: BLE001
                        pass
                    break
    return n


def run(tier, seed):
    from dissect.cstruct import cstruct

    rep = Report("C14", tier, seed, "other", "./vf check C14 --tier " + tier)
    from contracts import frames

    rep.add_case_results(run_cases(frames.specs() + [("contracts.frames", "make_globals", ())]), "T1")
    rnd = random.Random(seed)
    fr = Bounded("default-freshness", f"{len(KINDS)} field kinds x struct/union container x compiled/interpreted: mutate a default instance, construct another")
    for kind, decl in KINDS.items():
        for container in ("struct", "union"):
            if container == "union" and kind in ("dynarray", "anon"):
                continue
            for compiled in (False, True):
                cs = cstruct()
                try:
                    cs.load(PRE + f"{container} T {{ {decl} }};", compiled=compiled)
                    T = cs.T
                    pristine = repr_value(T())
                    dup = aliases(T())
                    # ... and when the instance is built from one positional value (the remaining members take defaults)
                    first = T.__fields__[0]
                    if container == "struct" and len(T.__fields__) > 1 and first.type.__name__ in ("uint8", "uint32") and not first.bits:
                        p1 = T(1)
                        mutate(p1)
                        p2 = T(2)
                        setattr(p2, first._name, 0)
                        if repr_value(p2) != pristine:
                            dup = [*dup, f"T(2) after mutating T(1): {repr_value(p2)}"]
                    x = T()
                    m = mutate(x)
                    again = repr_value(T())
                    y = T()
                    shared = any(getattr(x, n) is getattr(y, n) and isinstance(getattr(x, n), list) for n in T.fields if n in x.__dict__ or True)
                    ok = again == pristine and not shared and not dup
                    obs = f"after mutating one default instance a new default is {again}, pristine {pristine}; mutable field objects shared: {shared}; aliased inside one default instance: {dup[:3]}"
                except Exception as e:  # noqa: BLE001
                    ok, obs = False, f"raises {type(e).__name__}: {e}"
                fr.case((kind, container, compiled), ok, observed=obs, inputs={"definition": f"{container} T {{ {decl} }};", "compiled": compiled})
    fr.add_to(rep)
    iso = Bounded("cstruct-objects-independent", "two cstruct objects with same-named types; load / endian / add_type on one; seeded operation histories of <= 12 steps against fresh-object oracle")
    text1 = "struct S { uint16 a; uint8 b[2]; }; typedef uint16 T1; #define C1 4"
    sample = bytes(range(1, 40))
    for trial in range(60 if tier == "quick" else 600):
        a, b = cstruct(), cstruct()
        a.load(text1)
        b.load(text1)
        base_b = cs_sig(b, sample)
        ops = []
        for _ in range(rnd.randint(1, 12)):
            op = rnd.choice(["endian", "load", "add_type", "parse", "dump", "const", "fail"])
            ops.append(op)
            try:
                if op == "endian":
                    a.endian = rnd.choice("<>")
                elif op == "load":
                    a.load(f"struct X{rnd.randint(0, 99)} {{ uint32 q; }};")
                elif op == "add_type":
                    a.add_type(f"t{rnd.randint(0, 99)}", rnd.choice(["uint8", "int64"]))
                elif op == "parse":
                    a.S(sample)
                elif op == "dump":
                    a.S(a=1, b=[2, 3]).dumps()
                elif op == "const":
                    a.load(f"#define C1 {rnd.randint(5, 9)}")
                elif op == "fail":
                    try:
                        a.S(b"\x01")
                    except EOFError:
                        pass
            except Exception:  # noqa: BLE001
                pass
        now_b = cs_sig(b, sample)
        iso.case((trial, tuple(ops)), now_b == base_b, observed="signature of the untouched cstruct object changed" if now_b != base_b else None, inputs={"ops_on_other_object": ops})
    iso.add_to(rep)
    pure = Bounded("parsing-is-a-function-of-type-and-bytes", "seeded histories (parse / failed parse / dump / failed dump / construct / mutate results / byte order switched there and back / scalar types used) followed by a probe parse and dump, compared with the probe on a fresh library")
    text = PRE + "struct P { uint8 n; uint16 d[n * 2 - 1]; inner i[2]; E8 e; char s[]; uint8 bf:3; uint8 bg:5; };"
    for trial in range(80 if tier == "quick" else 800):
        cs = cstruct()
        cs.load(text, compiled=bool(trial % 2))
        probe = bytes([2]) + bytes(rnd.randrange(1, 256) for _ in range(6 + 8 + 1)) + b"hi\x00" + bytes([rnd.randrange(256)])
        fresh = cstruct()
        fresh.load(text, compiled=bool(trial % 2))
        want = repr_value(fresh.P(probe))
        want_dump = fresh.P(probe).dumps()
        want_i24 = (repr_value(fresh.int24(b"\x01\x02\x83")), fresh.uint48.dumps(0x010203040506))
        hist = []
        for _ in range(rnd.randint(0, 10)):
            op = rnd.choice(["parse", "short", "dump", "mutate", "default", "other-endian-cs", "failed-dump", "endian-there-and-back", "scalar-use"])
            hist.append(op)
            try:
                if op == "parse":
                    cs.P(bytes([1]) + bytes(rnd.randrange(256) for _ in range(30)) + b"\x00\x00")
                elif op == "short":
                    cs.P(bytes([3, 1, 2]))
                elif op == "dump":
                    cs.P(probe).dumps()
                elif op == "mutate":
                    v = cs.P(probe)
                    v.d[0] = 5
                    v.i[0].ia = 9
                elif op == "default":
                    cs.P().dumps()
                elif op == "other-endian-cs":
                    o = cstruct(endian=">")
                    o.load(text)
                    o.P(probe)
                elif op == "failed-dump":
                    # a dump that fails after part of the value was written (wrong-length static array / out-of-range scalar)
                    v = cs.P(probe)
                    v.i = v.i[:1]
                    v.e = cs.E8(1)
                    v.dumps()
                elif op == "endian-there-and-back":
                    cs.endian = ">"
                    try:
                        cs.P(probe)
                        cs.int24(b"\x01\x02\x03")
                        cs.uint48.dumps(77)
                    finally:
                        cs.endian = "<"
                elif op == "scalar-use":
                    cs.int24(b"\x01\x02\x03")
                    cs.uint48.dumps(5)
                    cs.uint128(bytes(16))
            except Exception:  # noqa: BLE001
                pass
        got = repr_value(cs.P(probe))
        try:
            got_dump = cs.P(probe).dumps()
            got_i24 = (repr_value(cs.int24(b"\x01\x02\x83")), cs.uint48.dumps(0x010203040506))
        except Exception as e:  # noqa: BLE001
            got_dump, got_i24 = f"raises {type(e).__name__}", None
        ok = got == want and got_dump == want_dump and got_i24 == want_i24
        pure.case((trial, tuple(hist)), ok, observed=f"parse {got} expected {want}; dump {got_dump!r} expected {want_dump!r}; int24/uint48 {got_i24} expected {want_i24}"[:600],
                  inputs={"history": hist, "probe": probe.hex()})
    pure.add_to(rep)
    rep.extra["rule"] = "field kinds x containers x reader for default freshness; seeded operation histories for independence and purity"
    rep.extra["explanation"] = (
        "deductive part: frame obligations (no function on the parse/dump path assigns shared state; no function of the package stores to "
        "module-level state), computed from the working tree. Default values live in co_consts of a patched code object and instances are "
        "built by CPython: freshness of defaults and independence of cstruct objects are exercised (bounded), not proved."
    )
    return rep
