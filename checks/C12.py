"""C12 - enums and flags preserve every underlying value and number members like C."""
from __future__ import annotations

import io
import itertools
import random

from checks.common import Report
from pyvc.harness import run_cases
from runtime.bounded import Bounded

DECLS = [
    ("enum", "uint8", [("A", None), ("B", None), ("C", "5"), ("D", None), ("E", "C + 10"), ("F", None)]),
    ("enum", "int8", [("N", "-2"), ("Z", None), ("P", None), ("Q", "100")]),
    ("enum", "uint8", [("A", "1"), ("DUP", "1"), ("B", "2"), ("ALSO2", "B")]),
    ("flag", "uint8", [("X", None), ("Y", None), ("Z", None), ("W", "0x40"), ("V", None)]),
    ("flag", "uint8", [("A", "3"), ("B", None), ("C", "B | 1"), ("D", None)]),
    ("enum", "uint16", [("LO", "0"), ("HI", "0xFFFF"), ("MID", "0x8000")]),
    ("enum", "int32", [("MIN", "-2147483648"), ("NEXT", None), ("MAX", "2147483647")]),
    ("flag", "uint32", [("B0", "1"), ("B31", "0x80000000"), ("ALL", "0xFFFFFFFF")]),
]


def render(kind, typ, members, name):
    body = ", ".join(f"{k} = {v}" if v is not None else k for k, v in members)
    return f"{kind} {name} : {typ} {{ {body} }};"


def reference_values(kind, members):
    """C numbering: enum previous + 1 (first 0), flag next higher power of two (first 1); explicit = expression over earlier members"""
    vals = {}
    nxt = 1 if kind == "flag" else 0
    for k, v in members:
        if v is None:
            val = nxt
        else:
            val = eval(v, {"__builtins__": {}}, dict(vals))  # noqa: S307 - our own literal table
        vals[k] = val
        nxt = (1 << val.bit_length()) if kind == "flag" else val + 1
    return vals


def run(tier, seed):
    from dissect.cstruct import cstruct

    rep = Report("C12", tier, seed, "other", "./vf check C12 --tier " + tier)
    rep.add_case_results(run_cases([("contracts.enums", "make_enum", (w, e)) for w in ("delegation", "equality", "arrays") for e in "<>"]
                                   + [("contracts.dispatch", "make_dispatch", (w,)) for w in ("forms", "forms:>")]), "T1")
    num = Bounded("auto-numbering", f"{len(DECLS)} declaration shapes (gaps, duplicates, expressions over earlier members, signed/unsigned storage) x both parsers")
    pres = Bounded("value-preservation", "every 8-bit underlying value, boundary values of wider storage; scalar, array, null-terminated array, bit-field use, arrays of 63/64/65/300 elements (standalone and expression-sized, both readers); two parses compared")
    for di, (kind, typ, members) in enumerate(DECLS):
        want = reference_values(kind, members)
        for legacy in (False, True):
            cs = cstruct()
            text = render(kind, typ, members, "T")
            try:
                if legacy:
                    if any(v and any(c.isalpha() for c in v.replace("0x", "").replace("F", "")) for _, v in members):
                        continue  # the legacy parser does not evaluate member references
                    cs.load(text + "\n", deftype=cstruct.DEF_LEGACY)
                else:
                    cs.load(text)
                got = {k: int(v.value) for k, v in cs.T.__members__.items()}
                ok, obs = got == want, f"{got} expected {want}"
            except Exception as e:  # noqa: BLE001
                ok, obs = False, f"raises {type(e).__name__}: {e}"
            num.case((di, legacy), ok, observed=obs, inputs={"declaration": text, "legacy_parser": legacy})
        # a member name that is also a global constant (defined earlier) still denotes the member inside the declaration
        for prefix in ("#define A 55\n#define B 66\n#define C 77\n", "enum { B = 40, C = 41, Z = 42 };\n"):
            cs = cstruct()
            text = prefix + render(kind, typ, members, "T")
            try:
                cs.load(text)
                got = {k: int(v.value) for k, v in cs.T.__members__.items()}
                ok, obs = got == want, f"{got} expected {want}"
            except Exception as e:  # noqa: BLE001
                ok, obs = False, f"raises {type(e).__name__}: {e}"
            num.case((di, "shadowed-by-constant", prefix[:8]), ok, observed=obs, inputs={"declaration": text})
        cs = cstruct()
        cs.load(render(kind, typ, members, "T") + f" struct S {{ T a; T b[2]; T c[]; }}; struct BF {{ T x:3; T y:5; }};")
        T = cs.T
        n = T.type.size
        signed = typ.startswith("int")
        if n == 1:
            values = range(-128, 128) if signed else range(256)
        else:
            hi = 1 << (8 * n)
            base = [0, 1, 2, hi // 2 - 1, hi // 2, hi // 2 + 1, hi - 2, hi - 1] + [int(v) for v in want.values() if 0 <= v < hi]
            values = sorted({(v - hi if signed and v >= hi // 2 else v) for v in base} | {v for v in want.values()})
        values = list(values)
        long_values = set(values[:3] + values[-2:] + [int(x) for x in want.values()])
        csd, csdi = cstruct(), cstruct()
        csd.load(render(kind, typ, members, "T") + " struct D { uint16 n; T d[n]; };")
        csdi.load(render(kind, typ, members, "T") + " struct D { uint16 n; T d[n]; };", compiled=False)
        for v in values:
            raw = v.to_bytes(n, "little", signed=signed)
            try:
                a, b2 = T(raw), T(io.BytesIO(raw))
                checks = {
                    "value-preserved": a.value == v and int(a) == v,
                    "dumps-back": a.dumps() == raw and T.dumps(a) == raw,
                    "equals-int": a == v and not (a != v),
                    "two-parses-equal": a == b2 and hash(a) == hash(b2),
                    "constructor-by-value": T(v) == a and T(v).value == v,
                    "member-name": (a.name in want and want[a.name] == v) if v in want.values() and kind == "enum" else True,
                }
                s = cs.S(raw + raw + raw + (raw if v != 0 else b"\x01" * n) + bytes(n))
                checks["as-field"] = s.a.value == v and s.b[0].value == v and s.b[1].value == v
                if v != 0:
                    checks["null-terminated"] = [x.value for x in s.c] == [v]
                checks["struct-dumps"] = s.dumps()[: 3 * n] == raw * 3
                if v in long_values:
                    # long arrays (bulk paths): every element is indistinguishable from the scalar parse of the same bytes
                    for cnt in (63, 64, 65, 300):
                        arr = T[cnt](raw * cnt)
                        checks[f"array[{cnt}]-elements-as-scalar"] = len(arr) == cnt and all(
                            x == a and hash(x) == hash(a) and x.name == a.name and x.value == v for x in arr)
                        for comp in (csd, csdi):
                            d = comp.D(cnt.to_bytes(2, "little") + raw * cnt)
                            a2 = comp.T(raw)
                            checks[f"dynamic-array[{cnt}]-{'compiled' if comp is csd else 'interpreted'}"] = len(d.d) == cnt and all(
                                x == a2 and hash(x) == hash(a2) and x.name == a2.name and x.name == a.name for x in d.d)
            except Exception as e:  # noqa: BLE001
                checks = {f"raises {type(e).__name__}: {e}": False}
            bad = [k for k, ok in checks.items() if not ok]
            pres.case((di, v), not bad, observed=f"failed clauses {bad}", inputs={"declaration": render(kind, typ, members, "T"), "underlying": v})
        if n == 1:
            for byte in range(256):
                try:
                    bf = cs.BF(bytes([byte]))
                    ok = bf.x.value == byte & 7 and bf.y.value == byte >> 3 and bf.dumps() == bytes([byte])
                    obs = f"x={bf.x.value} y={bf.y.value} dumps={bf.dumps().hex()}"
                except Exception as e:  # noqa: BLE001
                    ok, obs = False, f"raises {type(e).__name__}: {e}"
                pres.case((di, "bf", byte), ok, observed=obs, inputs={"declaration": render(kind, typ, members, "T"), "bitfield_byte": byte})
    num.add_to(rep)
    pres.add_to(rep)
    # class-scoped equality: members of different enum/flag classes (and stdlib enums) never compare equal
    eq = Bounded("class-scoped-equality", "pairs of members with equal value across enum/enum, enum/flag, flag/flag, cstruct/stdlib classes, both directions")
    cs = cstruct()
    cs.load("enum E1 : uint8 { A = 1, B = 2 }; enum E2 : uint8 { A = 1, Z = 2 }; flag F1 : uint8 { X = 1, Y = 2 }; flag F2 : uint16 { X = 1, Q = 2 };")
    import enum as _enum

    class Std(_enum.IntEnum):
        ONE = 1
        TWO = 2

    class StdF(_enum.IntFlag):
        ONE = 1
        TWO = 2

    groups = {"E1": cs.E1, "E2": cs.E2, "F1": cs.F1, "F2": cs.F2, "Std": Std, "StdF": StdF}
    for (n1, c1), (n2, c2) in itertools.product(groups.items(), repeat=2):
        if n1.startswith("Std"):
            continue
        for v in (1, 2, 3, 0):
            try:
                a, b2 = c1(v), c2(v)
            except ValueError:
                continue
            want = n1 == n2
            ok = (a == b2) == want and (a != b2) == (not want) and (a == v)
            if want:
                ok = ok and hash(a) == hash(b2)
            eq.case((n1, n2, v), ok, observed=f"{a!r} == {b2!r} is {a == b2}, expected {want}", inputs={"left": n1, "right": n2, "value": v})
    eq.add_to(rep)
    rep.extra["rule"] = "declaration shapes x underlying values x use sites; distinct = (declaration, value)"
    rep.extra["explanation"] = (
        "deductive part (T1): EnumMetaType._read/_read_array/_write delegate to the underlying type and wrap/unwrap the integer "
        "unchanged; Enum/Flag.__eq__ (real text interpreted on symbolic values) is equality of values restricted to the same class. "
        "Value preservation THROUGH Python's enum machinery (EnumMeta.__call__, _missing_, KEEP boundary, alias members), "
        "auto-numbering (regex-split declaration text) and hashing are exercised, not proved: bounded exhaustive over 8-bit storage."
    )
    return rep
