"""./vf replay <file>: re-run a recorded counterexample on the current tree."""
from __future__ import annotations

import json
import sys


def main(path):
    d = json.load(open(path))
    case = d.get("case") or ""
    inp = d.get("input")
    print(f"property {d.get('property')} obligation {d.get('obligation')}")
    if inp is None:
        print("no concrete input recorded (no-failing-input-found); solver output:\n", d.get("solver_model"))
        return 2
    if case.startswith(("pipe", "C03rel", "C05switch")):
        import re

        from t2.cases import native_pipeline, native_rel
        from t2.family import Program

        m = re.match(r"^(pipe([CI])\[([^\]]*)\]|C03rel|C05switch):([SU])\[([^\]]*)\]([<>])([AP])(?:@(\w+))?", case)
        if not m:
            print("cannot parse case name", case)
            return 2
        prog = Program(m.group(5).split(","), m.group(6), m.group(7) == "A", union=m.group(4) == "U", pointer=m.group(8))
        if m.group(1).startswith("pipe"):
            r = native_pipeline(prog, m.group(2) == "C", set(m.group(3).split("+")), inp)
        else:
            r = native_rel(prog, inp)
        print(json.dumps(r, indent=1, default=str))
        return 1 if r.get("reproduced") else 0
    print("recorded replay result:", json.dumps(d.get("replay"), indent=1, default=str))
    print("input:", json.dumps(inp, default=str))
    return 1 if (d.get("replay") or {}).get("reproduced") else 0


if __name__ == "__main__":
    sys.exit(main(sys.argv[1]))
