"""C15 - concurrent parsing with shared types == sequential parsing."""
from __future__ import annotations

import io

from checks.common import Report
from pyvc.harness import run_cases
from runtime.bounded import Bounded
from runtime.schedule import count_events, run_with_preemption

DEFS = """
#define K 2
struct E { uint8 a; uint8 b; char d[a * 2 + b]; uint8 t; };
struct B { uint16 x:3; uint16 y:13; uint8 z; };
union U { uint32 w; uint8 h[4]; };
struct P { uint8 *p; uint8 n; uint16 arr[n - K]; };
struct N { E e; B bits[2]; U u; };
"""


def run(tier, seed):
    from dissect.cstruct import cstruct
    from dissect.cstruct import expression, bitbuffer
    from dissect.cstruct.types import structure, base

    rep = Report("C15", tier, seed, "other", "./vf check C15 --tier " + tier)
    from contracts import frames

    rep.add_case_results(run_cases(frames.specs()), "T1")
    # schedule exploration (replay side): every single preemption inside the functions that touch shared receivers
    sch = Bounded("single-preemption-schedules", "two threads x 5 definitions (expressions, bit-fields, unions, pointers, arrays, nested) x every source-line preemption point inside Expression.evaluate/evaluate_exp, BitBuffer.read, StructureMetaType._read, BaseArray._read")
    for compiled in (False, True):
        cs = cstruct()
        cs.load(DEFS, compiled=compiled)
        codes = set()
        for fn in (expression.Expression.evaluate, expression.Expression.evaluate_exp, bitbuffer.BitBuffer.read,
                   base.BaseArray._read.__func__):
            codes.add(id(fn.__code__))
        if not compiled:
            codes.add(id(structure.StructureMetaType._read.__code__))
        inputs = {
            "E": (bytes([1, 2]) + b"abcd" + b"\x07", bytes([2, 0]) + b"wxyz" + b"\x09"),
            "B": (bytes([0xAB, 0xCD, 1]), bytes([0x12, 0x34, 2])),
            "U": (bytes([1, 2, 3, 4]), bytes([9, 8, 7, 6])),
            "P": (bytes(8) + bytes([4, 1, 0, 2, 0]), bytes(8) + bytes([3, 5, 0])),
            "N": (bytes([1, 1]) + b"abc" + b"\x01" + bytes([1, 2, 3, 4, 5, 6]) + bytes([7, 7, 7, 7]), bytes([0, 2]) + b"zz" + b"\x02" + bytes([9, 9, 9, 8, 8, 8]) + bytes([1, 1, 1, 1])),
        }
        for name, (da, db) in inputs.items():
            T = getattr(cs, name)
            ta = lambda: repr(T(io.BytesIO(da)))  # noqa: E731
            tb = lambda: repr(T(io.BytesIO(db)))  # noqa: E731
            want = (("ok", ta()), ("ok", tb()))
            n = count_events(ta, codes)
            ks = range(1, n + 1) if tier != "quick" or n <= 120 else list(range(1, n + 1, max(1, n // 120)))
            for k in ks:
                got = run_with_preemption(ta, tb, codes, k)
                sch.case((name, compiled, k), got == want, observed=f"{got} expected {want}",
                         inputs={"definition": name, "compiled": compiled, "preempt_thread_A_at_line_event": k, "input_a": da.hex(), "input_b": db.hex()})
            # and dumping concurrently with parsing
            va = T(da)
            tw = lambda: va.dumps().hex()  # noqa: E731
            want2 = (("ok", ta()), ("ok", tw()))
            for k in list(ks)[:: max(1, len(list(ks)) // 20)]:
                got = run_with_preemption(ta, tw, codes, k)
                sch.case((name, compiled, "dump", k), got == want2, observed=f"{got} expected {want2}", inputs={"definition": name, "parse_vs_dump": True, "k": k})
    sch.add_to(rep)
    rep.extra["rule"] = "frame obligations per function of the parse/dump path; schedules = (definition, reader, preemption point)"
    rep.extra["explanation"] = (
        "this family has no thread model. What is decided deductively is the sufficient condition the statement names: every function on "
        "the parse/dump path assigns nothing that is shared between parses (frame obligations computed from the working tree's AST: "
        "attribute/subscript stores and mutating calls classified by receiver). Threads whose write sets are disjoint and that only read "
        "shared immutable state commute (meta-argument, not mechanised). A failed frame obligation is replayed as a schedule: one thread "
        "is preempted at every source line of the offending functions while another parse runs to completion."
    )
    rep.assumptions += ["CPython executes single list/dict operations and lru_cache lookups atomically", "frame classification of receivers (shared vs per-parse) is a table in contracts/frames.py",
                        "the interleaving quantifier rests on the commutation meta-argument; the schedule exploration is bounded (single preemption)"]
    return rep
