"""C06 - bit-fields partition their storage unit exactly, in endian-defined order."""
from __future__ import annotations

from checks.common import Report
from checks.t2util import T2_ASSUMPTIONS, T2_RULE, programs_for, run_pipeline
from pyvc.harness import run_cases
from t2 import sets


def has_bits(p):
    return any(k in sets.BIT_KINDS for k in p.kinds)


def run(tier, seed):
    rep = Report("C06", tier, seed, "proof", "./vf check C06 --tier " + tier)
    from contracts import bitbuffer, layout

    t1 = bitbuffer.t1_specs(tier)
    t1 += [s for s in layout.specs(tier) if s[1] == "make_step" and (s[2][0].startswith("bits") or s[2][7] == "exit")]
    rep.add_case_results(run_cases(t1), "T1")
    progs = sets.focused_programs(sorted(sets.BIT_KINDS), seed, partners=("u8", "u16", "u32", "i24", "inner", "d_char"), tier=tier,
                                   sandwich=("u8", "inner", "a_u16_3", "d_char", "e8", "anon_s"))
    from t2.family import Program

    progs = sets.dedupe(progs + sets.sandwiches())
    progs += [Program(["b8_roll"], e, a) for e in "<>" for a in (False, True)] + [Program(["b8_part", "b8_part"], "<", False)]
    rep.add_case_results(run_cases([("t2.cases", "make_layout", (p.to_json(),)) for p in progs]), "T2")
    rep.add_case_results(run_cases([("t2.cases", "make_rel", (p.to_json(),)) for p in progs]), "T2")
    run_pipeline(rep, progs, ["C01", "C02"])
    # the bit order inside a unit follows the byte order current at parse time, in the compiled reader too
    sw = [p for p in sets.singles(kinds=sorted(sets.BIT_KINDS)) if p.kinds[0] not in sets.REJECTED and not p.align]
    rep.add_case_results(run_cases([("t2.cases", "make_switch", (p.to_json(),)) for p in sw]), "T2")
    rep.extra["rule"] = "bit-field programs of family F (every bit kind alone and paired with every quick kind), x endian x mode x reader; T1: every (unit width, bits consumed, field width, byte order, storage signedness)"
    rep.extra["explanation"] = (
        "T1 (bit-vector mode, exhaustive in the finite parameters, symbolic unit contents): BitBuffer.read returns spec_bits(unit, W, "
        "consumed, bits, endian) in [0, 2^bits) and advances, refills exactly when exhausted or the type changes, refuses a straddle; "
        "write places exactly that slice and touches nothing else, flush writes the unit once in the unit's byte order; layout step: "
        "new unit iff exhausted / other storage type / non-bit member in between, straddle refused exactly when bits exceed the unit. "
        "T2: per bit-field program unit allocation equals the reference, compiled == interpreted, write is the inverse of read."
    )
    rep.assumptions += T2_ASSUMPTIONS + ["quick tier proves unit widths 8-32 bits; thorough adds 48 and 64 (128-bit units are not built in)"]
    return rep
