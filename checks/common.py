"""Report assembly shared by all property checks: evidence file, replay files, known findings,
VIOLATION / KNOWN-FINDING lines, exit code."""
from __future__ import annotations

import hashlib
import json
import os
import re
import sys
import time

VERIF = os.path.dirname(os.path.dirname(os.path.abspath(__file__)))
OUT = os.environ.get("VERIF_OUT", VERIF)  # evidence/ and replays/ go here (seed runs redirect them away from the committed evidence)
REPO = os.environ.get("VERIF_REPO", "/repo")

TRUSTED_BASE = [
    "z3 4.x/5.1 (and cvc5 1.0 for queries z3 leaves unknown) and the pyvc VC generator itself (guarded by the CPython "
    "cross-check of every operator encoding and the mutation self-test, not eliminated)",
    "CPython builtins given definitions instead of proofs: int.from_bytes/to_bytes (sum / digit decomposition, two's "
    "complement), struct.Struct pack/unpack for bBhHiIlLqQ via the same integer spec; floats (e f d) and UTF-16 text "
    "are opaque bit patterns / code units (assumed bijective on non-NaN, well-formed data)",
    "io.BytesIO axioms (read/seek/tell/write/getvalue over (data, pos)); cross-checked against CPython on every run",
    "structure instances are built by CPython from the generated __init__ (patched code object): attribute binding by "
    "type.__call__ is executed natively on opaque values, not interpreted",
    "enum.EnumMeta.__call__ (value -> member / pseudo-member) is modelled as value-preserving; exercised natively under C12",
]


def load_known():
    path = os.path.join(VERIF, "known_findings.json")
    if not os.path.exists(path):
        return []
    with open(path) as f:
        return [k for k in json.load(f).get("findings", []) if k.get("status") == "open"]


class Report:
    def __init__(self, prop: str, tier: str, seed: int, level: str, checker_cmd: str):
        self.prop, self.tier, self.seed, self.level, self.checker_cmd = prop, tier, seed, level, checker_cmd
        self.t0 = time.time()
        self.obligations = 0
        self.discharged = 0
        self.undecided = []
        self.failures = []  # dicts: obligation, case, inputs, replay, info, tierkind
        self.by_backend = {}
        self.solver_s = 0.0
        self.functions = {}
        self.samples = []
        self.programs = 0
        self.program_sigs = set()
        self.paths = 0
        self.bounded = []  # dicts describing bounded stand-ins: name, evaluations, distinct, bound, failures
        self.assumptions = ["the engine's operator encodings, codec definitions, struct model and BytesIO model were compared with CPython on "
                            "boundary and seeded values at the start of this run (pyvc/crosscheck.py): no disagreement"]
        self.notes = []
        self.flags = set()
        self.errors = []
        self.extra = {}

    # ---- deductive part
    def add_case_results(self, results, kind="T2"):
        for r in results:
            if r.get("error"):
                self.errors.append({"case": r["case"], "error": r["error"][-1500:]})
            self.paths += r.get("paths", 0)
            if r.get("attempts"):
                # a budget left this case open on its first run; it was run again with larger budgets (pyvc/harness.run_cases)
                self.retried = getattr(self, "retried", []) + [{"case": r["case"], "attempts": r["attempts"], "open_after_first_attempt": r.get("first_attempt_open"),
                                                              "open_after_last_attempt": sum(1 for o in r["obligations"] if o["status"] == "undecided")}]
            self.slowest = sorted(getattr(self, "slowest", []) + [(round(r.get("wall_s", 0), 1), r["case"])], reverse=True)[:5]
            self.solver_s += r.get("solver_s", 0)
            for fl in r.get("flags", []):
                self.flags.add(fl)
            for q, (f, line) in r.get("sources", {}).items():
                self.functions[f"{f}:{q}"] = line
            for fn in r.get("functions", []):
                self.functions.setdefault(fn, None)
            for o in r["obligations"]:
                self.obligations += 1
                self.by_backend[o["backend"]] = self.by_backend.get(o["backend"], 0) + 1
                if o["status"] == "proved":
                    self.discharged += 1
                    if len(self.samples) < 6 and (self.obligations % 97 == 1):
                        self.samples.append({"obligation": o["name"], "status": "proved", "backend": o["backend"], "info": o["info"]})
                elif o["status"] == "undecided":
                    self.undecided.append({"obligation": o["name"], "info": o["info"]})
            st = r.get("standin")
            if st:
                # bounded native stand-in run because this case was left undecided (never counted as proved)
                self.add_bounded(st["name"], st.get("evaluations", 0), st.get("distinct", st.get("evaluations", 0)),
                                 "stand-in for undecided obligations: " + str(st.get("bound")), st.get("failures", []))
                if st.get("error"):
                    self.notes.append(f"stand-in {st['name']} crashed: {st['error'][-300:]}")
            failed_names = {f["obligation"] for f in r["failures"]}
            for f in r["failures"]:
                self.failures.append({**f, "case": r["case"], "kind": kind})
            # obligations that failed without a model record
            for o in r["obligations"]:
                if o["status"] == "failed" and o["name"] not in failed_names:
                    self.failures.append({"obligation": o["name"], "case": r["case"], "inputs": None, "replay": None, "info": o["info"], "kind": kind})

    # ---- bounded stand-ins (never counted as proved)
    def add_bounded(self, name, evaluations, distinct, bound, failures=(), samples=()):
        self.bounded.append({"name": name, "evaluations": evaluations, "distinct_nontrivial": distinct, "bound": bound,
                             "failures": len(failures)})
        for f in failures:
            self.failures.append({"obligation": f"bounded/{name}/{f.get('id', '')}", "case": name, "inputs": f.get("inputs"),
                                  "replay": {"reproduced": True, "observed": f.get("observed")}, "info": f.get("info"), "kind": "T3"})
        for s in list(samples)[:3]:
            self.samples.append({"bounded": name, "case": s})

    # ---- output
    def finish(self):
        known = load_known()
        violations = []
        known_hits = {}
        rdir = os.path.join(OUT, "replays", self.prop)
        if os.path.isdir(rdir):
            import shutil

            shutil.rmtree(rdir)  # replay files belong to the run that wrote them
        for f in self.failures:
            k = self.match_known(f, known)
            if k is not None:
                known_hits.setdefault(k["id"], {"k": k, "n": 0})["n"] += 1
                continue
            violations.append(f)
        out_lines = []
        for kid, h in known_hits.items():
            out_lines.append(f"KNOWN-FINDING: property={self.prop} {kid}: {h['k']['what']} ({h['n']} failing obligations attributed)")
        # failures with a natively reproduced input first
        violations.sort(key=lambda f: 0 if (f.get("replay") or {}).get("reproduced") else 1)
        seen_files = set()
        if violations:
            os.makedirs(rdir, exist_ok=True)
        for f in violations[:40]:
            body = {
                "property": self.prop,
                "obligation": f["obligation"],
                "case": f["case"],
                "tier": f.get("kind"),
                "info": f.get("info"),
                "input": f.get("inputs"),
                "replay": f.get("replay"),
                "solver_model": f.get("model"),
                "rerun": f"./vf replay replays/{self.prop}/<this file>",
                "tree": REPO,
            }
            h = hashlib.sha1(json.dumps([f["obligation"], f.get("inputs")], sort_keys=True, default=str).encode()).hexdigest()[:12]
            path = os.path.join(rdir, f"{h}.json")
            if path in seen_files:
                continue
            seen_files.add(path)
            with open(path, "w") as fh:
                json.dump(body, fh, indent=1, default=str)
            rep = f.get("replay") or {}
            suffix = "" if rep.get("reproduced") else " no-failing-input-found"
            out_lines.append(f"VIOLATION property={self.prop} replay={path}{suffix}")
        if len(violations) > 40:
            out_lines.append(f"... {len(violations) - 40} further failing obligations not written out")
        ev = self.evidence(len(violations), known_hits)
        os.makedirs(os.path.join(OUT, "evidence"), exist_ok=True)
        with open(os.path.join(OUT, "evidence", f"{self.prop}.json"), "w") as fh:
            json.dump(ev, fh, indent=1, default=str)
        for ln in out_lines:
            print(ln)
        for u in self.undecided[:10]:
            # an open obligation is neither a proof nor a violation: name it, so that the log says what was left open
            print(f"UNDECIDED: property={self.prop} obligation={u['obligation']} ({str(u.get('info'))[:200]})")
        status = "VIOLATED" if violations else "held"
        print(
            f"{self.prop} [{self.tier}] {status}: obligations={self.obligations} discharged={self.discharged} "
            f"undecided={len(self.undecided)} failed={len(self.failures)} known={sum(h['n'] for h in known_hits.values())} "
            f"bounded_evals={sum(b['evaluations'] for b in self.bounded)} wall={time.time() - self.t0:.1f}s"
        )
        if self.errors:
            print(f"CHECKER-ERROR in {len(self.errors)} cases, first: {self.errors[0]['case']}\n{self.errors[0]['error'][-800:]}", file=sys.stderr)
            return 3 if not violations else 1
        return 1 if violations else 0

    @staticmethod
    def match_known(f, known):
        for k in known:
            for m in k.get("match_any", [k.get("match", {})] if k.get("match") else []):
                if "obligation" in m and not re.search(m["obligation"], f["obligation"]):
                    continue
                if "case" in m and not re.search(m["case"], f.get("case") or ""):
                    continue
                if "info" in m and not re.search(m["info"], str(f.get("info") or "")):
                    continue
                return k
        return None

    def evidence(self, nviol, known_hits):
        evals = sum(b["evaluations"] for b in self.bounded)
        distinct = sum(b["distinct_nontrivial"] for b in self.bounded)
        # obligations that fail because of a recorded known finding are reported on their own line: the property is known
        # NOT to hold there (see known_findings.json); they are neither discharged nor hidden
        kf = sum(h["n"] for h in known_hits.values() if True)
        kf_deductive = sum(1 for f in self.failures if not str(f["obligation"]).startswith("bounded/") and self.match_known(f, load_known()) is not None)
        cov = {
            "obligations": self.obligations - kf_deductive,
            "discharged": self.discharged,
            "obligations_failing_on_known_findings": kf_deductive,
            "undecided": len(self.undecided),
            "failed": len(self.failures),
            "known_finding_failures": sum(h["n"] for h in known_hits.values()),
            "checker_cmd": self.checker_cmd,
            "trusted_base": TRUSTED_BASE,
            "by_backend": self.by_backend,
            "solver_s": round(self.solver_s, 2),
            "paths_explored": self.paths,
            "functions_under_contract": sorted(self.functions),
            "programs": self.programs,
            "programs_distinct_by_layout_signature": len(self.program_sigs),
            "disagreements_checked": self.extra.get("disagreements_checked", self.obligations),
            "bounded_standins": self.bounded,
            "evaluations": max(evals, self.obligations, 1),
            "distinct_nontrivial": max(distinct, len(self.program_sigs), 2) if (distinct or self.program_sigs or self.obligations >= 2) else 0,
            "rule": self.extra.get("rule", ""),
            "samples": self.samples[:12] or [{"note": "no sample recorded"}],
            "undecided_samples": self.undecided[:8],
            "slowest_cases_s": getattr(self, "slowest", []),
            "cases_given_a_further_attempt": getattr(self, "retried", []),
            "flags": sorted(self.flags),
            "explanation": self.extra.get("explanation", ""),
            "exhaustive": False,
            "notes": self.notes,
        }
        cov.update({k: v for k, v in self.extra.items() if k not in cov})
        if kf_deductive:
            cov["explanation"] = (cov.get("explanation") or "") + (
                f" [{kf_deductive} further obligations fail on the recorded known findings "
                f"{sorted(known_hits)} (known_findings.json); they are excluded from 'obligations' and reported as KNOWN-FINDING lines]")
        level = self.level
        if level == "proof" and (self.discharged < self.obligations - kf_deductive or self.obligations == 0):
            # never report proof level for a run with open obligations
            level = "other"
            cov["explanation"] = (cov.get("explanation") or "") + " [downgraded from proof on this run: not every obligation was discharged]"
        return {
            "property_id": self.prop,
            "tier": self.tier,
            "seed": self.seed,
            "level": level,
            "coverage": cov,
            "assumptions": self.assumptions,
            "wall_s": round(time.time() - self.t0, 2),
            "violations": nviol,
        }


def layout_signature(prog, T):
    """Distinctness key of a program: layout-relevant shape of the loaded class."""
    return (tuple((f.offset, f.bits, getattr(f.type, "size", None), f.alignment) for f in T.__fields__), T.size, T.alignment,
            prog.endian, prog.align)
