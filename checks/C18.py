"""C18 - incrementally built or self-referential structures equal the one-shot definition."""
from __future__ import annotations

import itertools
import random

from checks.common import Report
from pyvc.harness import run_cases
from runtime.bounded import Bounded
from runtime.sig import repr_value, type_sig

FIELD_SETS = [
    [("a", "uint8", None), ("b", "uint32", None), ("c", "uint16", None)],
    [("n", "uint8", None), ("d", "uint16[n]", None), ("t", "uint8", None)],
    [("x", "uint16", 3), ("y", "uint16", 13), ("z", "uint8", None), ("w", "uint8", 4)],
    [("s", "char[4]", None), ("i", "int24", None), ("q", "uint64", None)],
    [("e", "E8", None), ("p", "uint8*", None), ("v", "inner", None), ("r", "inner[2]", None)],
    [("l", "uleb128", None), ("m", "uint32", None)],
    # anonymous members (their fields are folded into the container's field map)
    [("h", "uint8", None), (None, "anon_struct2", None), ("k", "uint16", None)],
    [(None, "anon_union3", None), ("k", "uint16", None), ("j", "uint8", None)],
    [(None, "anon_struct2", None), (None, "anon_union3", None), ("k", "uint8", None), ("j", "uint32", None), ("g", "uint8", None)],
]
ANON = {"anon_struct2": ("struct", [("pa", "uint8"), ("pb", "uint8")]), "anon_union3": ("union", [("ta", "uint8"), ("tb", "uint16"), ("tc", "uint8")])}
PRE = "struct inner { uint8 ia; uint32 ib; }; enum E8 : uint8 { A = 1 };"


def resolve_type(cs, spec, align=False):
    if spec in ANON:
        from dissect.cstruct.types.structure import Field

        kind, members = ANON[spec]
        make = cs._make_struct if kind == "struct" else cs._make_union
        return make(cs._next_anonymous(), [Field(n, cs.resolve(t)) for n, t in members], align=align, anonymous=True)
    if spec.endswith("*"):
        return cs._make_pointer(cs.resolve(spec[:-1]))
    if "[" in spec:
        base, cnt = spec[:-1].split("[")
        from dissect.cstruct.expression import Expression

        return cs._make_array(cs.resolve(base), int(cnt) if cnt.isdigit() else Expression(cs, cnt))
    return cs.resolve(spec)


def one_shot(fields, compiled, align):
    from dissect.cstruct import cstruct

    cs = cstruct()
    def decl(n, t, b):
        if t in ANON:
            kind, members = ANON[t]
            return f"{kind} {{ " + " ".join(f"{mt} {mn};" for mn, mt in members) + " };"
        return f"{t.split('[')[0].rstrip('*')} {'*' if t.endswith('*') else ''}{n}{'[' + t.split('[')[1] if '[' in t else ''}{(':' + str(b)) if b else ''};"

    body = " ".join(decl(n, t, b) for n, t, b in fields)
    cs.load(PRE + f" struct T {{ {body} }};", compiled=compiled, align=align)
    return cs


def observe(T, samples):
    out = [type_sig(T), bool(getattr(T, "__compiled__", False))]
    src = getattr(getattr(T._read, "__func__", None), "__source__", None)
    out.append(src)
    for s in samples:
        try:
            v = T(s)
            out.append((repr_value(v), tuple(sorted(v._sizes.items())), T.dumps(v).hex()))
        except Exception as e:  # noqa: BLE001
            out.append(("raises", type(e).__name__))
    try:
        out.append(("default", repr_value(T()), T().dumps().hex() if not T.dynamic or True else None))
    except Exception as e:  # noqa: BLE001
        out.append(("default-raises", type(e).__name__))
    return out


def run(tier, seed):
    from dissect.cstruct import cstruct
    from dissect.cstruct import compiler

    rep = Report("C18", tier, seed, "other", "./vf check C18 --tier " + tier)
    rep.add_case_results(run_cases([("contracts.commit", "make_commit", (i,)) for i in range(3)]), "T1")
    rnd = random.Random(seed)
    samples = [bytes(range(1, 60)), bytes(60), bytes([2, 0xFF] * 30), bytes([3, 1, 2])]
    b = Bounded("incremental-vs-one-shot", f"{len(FIELD_SETS)} field lists x every split into add_field / start_update batches x compiled/interpreted x packed/aligned; self-referential forward declaration")
    for fields in FIELD_SETS:
        for compiled in (False, True):
            for align in (False, True):
                try:
                    ref = observe(one_shot(fields, compiled, align).T, samples)
                except Exception as e:  # noqa: BLE001
                    b.case((str(fields), compiled, align, "one-shot"), False, observed=f"one-shot raises {e!r}", inputs=str(fields))
                    continue
                n = len(fields)
                # every composition of n into batches
                for cuts in itertools.product([False, True], repeat=n - 1):
                    batches = []
                    cur = [fields[0]]
                    for i, cut in enumerate(cuts):
                        if cut:
                            batches.append(cur)
                            cur = []
                        cur.append(fields[i + 1])
                    batches.append(cur)
                    try:
                        cs = cstruct()
                        cs.load(PRE, compiled=compiled, align=align)
                        T = cs._make_struct("T", [], align=align)
                        if compiled:
                            T = compiler.compile(T)
                        cs.add_type("T", T)
                        touch = rnd.random() < 0.5  # use the half-built class between the steps (instances, parses)
                        for batch in batches:
                            if len(batch) == 1 and rnd.random() < 0.5:
                                nme, t, bits = batch[0]
                                T.add_field(nme, resolve_type(cs, t, align), bits=bits)
                            else:
                                with T.start_update():
                                    for nme, t, bits in batch:
                                        T.add_field(nme, resolve_type(cs, t, align), bits=bits)
                            if touch:
                                try:
                                    T()
                                    T(**{T.__fields__[0]._name: 1}) if T.__fields__[0].name else None
                                    T(samples[0])
                                except Exception:  # noqa: BLE001
                                    pass
                        got = observe(T, samples)
                        ok = got == ref
                        obs = None if ok else _first_diff(ref, got)
                        if ok:
                            # ... and its default instances are as independent as those of the one-shot class
                            m = T()
                            _mutate_in_place(m)
                            fresh = ("default", repr_value(T()), T().dumps().hex())
                            if fresh != ref[-1]:
                                ok, obs = False, f"after mutating one default instance in place a new default is {fresh}, one-shot default {ref[-1]}"
                    except Exception as e:  # noqa: BLE001
                        ok, obs = False, f"raises {type(e).__name__}: {e}"
                    b.case((str(fields), compiled, align, cuts), ok, observed=obs, inputs={"fields": fields, "batches": [[f[0] for f in bt] for bt in batches], "compiled": compiled, "align": align})
    # explicit offsets (overlays): add_field(..., offset=o) == Field(..., offset=o) in a one-shot _make_struct, o = 0 included
    from dissect.cstruct.types.structure import Field

    for spec in ([("a", "uint32", None), ("b", "uint16", 0), ("c", "uint8", 6)], [("a", "uint16", None), ("b", "uint8", 1), ("c", "uint32", None)],
                 [("a", "uint8", 2), ("b", "uint8", 0)]):
        for compiled in (False, True):
            try:
                c1 = cstruct()
                ref_T = c1._make_struct("T", [Field(n, c1.resolve(t), offset=o) for n, t, o in spec])
                if compiled:
                    ref_T = compiler.compile(ref_T)
                ref = observe(ref_T, samples)
                c2 = cstruct()
                T = c2._make_struct("T", [])
                if compiled:
                    T = compiler.compile(T)
                for n, t, o in spec:
                    T.add_field(n, c2.resolve(t), offset=o)
                got = observe(T, samples)
                ok = got == ref
                obs = None if ok else _first_diff(ref, got)
            except Exception as e:  # noqa: BLE001
                ok, obs = False, f"raises {type(e).__name__}: {e}"
            b.case(("explicit-offsets", str(spec), compiled), ok, observed=obs, inputs={"fields_with_offsets": spec, "compiled": compiled})
    # self reference
    for compiled in (False, True):
        for align in (False, True):
            try:
                cs = cstruct()
                cs.load("struct node { uint16 v; node *next; uint8 tag; };", compiled=compiled, align=align)
                c2 = cstruct()
                c2.load("struct fwd { uint8 q; }; struct node { uint16 v; fwd *next; uint8 tag; };", compiled=compiled, align=align)
                a, r = cs.node, c2.node
                sa, sr = type_sig(a), type_sig(r)
                lay = (a.size, a.alignment, [f.offset for f in a.__fields__]) == (r.size, r.alignment, [f.offset for f in r.__fields__])
                comp = bool(getattr(a, "__compiled__", False)) == compiled
                tgt = a.fields["next"].type.type is a
                data = bytes(range(1, 40))
                va, vr = a(data), r(data)
                beh = (int(va.v), int(va.next), int(va.tag), va.dumps()) == (int(vr.v), int(vr.next), int(vr.tag), vr.dumps())
                ok = lay and comp and tgt and beh
                obs = f"layout-equal={lay} compiled-as-requested={comp} self-target={tgt} behaviour-equal={beh}"
            except Exception as e:  # noqa: BLE001
                ok, obs = False, f"raises {type(e).__name__}: {e}"
            b.case(("self-ref", compiled, align), ok, observed=obs, inputs={"definition": "struct node { uint16 v; node *next; uint8 tag; };", "compiled": compiled, "align": align})
    b.add_to(rep)
    rep.extra["rule"] = "field lists x all compositions into batches x reader x mode; distinct = (field list, batching, reader, mode)"
    rep.extra["explanation"] = (
        "deductive part (T1, real text of commit/_update_fields interpreted): every derived class attribute is recomputed from __fields__, "
        "__align__ and __compiled__ on each commit and reassigned (the set of keys written by commit is checked against the list of "
        "derived attributes; a failed recompilation falls back to the interpreted reader). The equality of the resulting class with the "
        "one-shot class (layout signature, generated reader text, parse/dump behaviour on samples) over all ways of batching is bounded."
    )
    return rep


def _first_diff(a, b):
    for i, (x, y) in enumerate(zip(a, b)):
        if x != y:
            return f"observation {i}: one-shot {str(x)[:200]} vs incremental {str(y)[:200]}"
    return "length differs"


def _mutate_in_place(obj, depth=0):
    from dissect.cstruct.types import Structure, Union

    if depth > 3:
        return
    for f in type(obj).__fields__:
        try:
            v = getattr(obj, f._name)
        except Exception:  # noqa: BLE001
            continue
        if type(v).__name__ == "UnionProxy" or isinstance(v, Union):
            continue
        if isinstance(v, list) and v:
            if isinstance(v[0], Structure):
                _mutate_in_place(v[0], depth + 1)
            elif isinstance(v[0], int):
                v[0] = type(v[0])(1) if type(v[0]) is not int else 1
        elif isinstance(v, list):
            v.append(1)
        elif isinstance(v, Structure):
            for g in type(v).__fields__:
                w = getattr(v, g._name, None)
                if isinstance(w, int) and not g.bits:
                    try:
                        object.__setattr__(v, g._name, 1)
                    except Exception:  # noqa: BLE001
                        pass
                    break
