"""C17 - structure values: field-wise equality, consistent hash/bool, local assignment."""
from __future__ import annotations

import ast
import io
import itertools
import random

from checks.common import Report
from checks.t2util import T2_ASSUMPTIONS
from pyvc.harness import run_cases
from runtime.bounded import Bounded


def run(tier, seed):
    from dissect.cstruct import cstruct
    from t2 import sets
    from t2.family import Program

    rep = Report("C17", tier, seed, "other", "./vf check C17 --tier " + tier)
    rep.add_case_results(run_cases([("contracts.templates", "make_tpl", (n,)) for n in (0, 1, 2, 3, 5, 8, 16, 24)]), "T1")
    progs = [p for p in sets.singles(endians=("<", ">")) if _fixed(p) and not p.union]
    progs += [Program(k, "<", a) for k in (["u8", "u32"], ["inner", "u16", "b8_part"], ["a_u16_3", "char", "i24"], ["b16_3", "u8"], ["anon_s", "u64"]) for a in (False, True)]
    if tier == "quick":
        progs = progs[::2]
    from checks.t2util import prove_summaries

    prove_summaries(rep, tier)
    rep.add_case_results(run_cases([("t2.cases", "make_assign", (p.to_json(),)) for p in progs]), "T2")
    rep.programs = len(progs)
    rnd = random.Random(seed)
    b = Bounded("instance-semantics", "family F singles (+ a few multi-field programs) x pairs of instances from seeded/boundary bytes: ==, hash, bool, constructor equivalences")
    for p in sets.singles(endians=("<",), aligns=(False, True)):
        try:
            cs = p.load(bool(rnd.getrandbits(1)))
        except Exception:  # noqa: BLE001
            continue
        T = cs.T
        datas = [bytes(64), bytes([1]) * 64, bytes((i * 7 + 3) % 256 for i in range(64)), bytes([0, 0, 1] * 22)]
        vals = []
        for d in datas:
            try:
                vals.append(T(d))
            except Exception:  # noqa: BLE001
                pass
        names = list(T.fields)
        for x, y in itertools.product(vals, repeat=2):
            try:
                fieldwise = all(_eq(getattr(x, n), getattr(y, n)) for n in names)
                checks = {"eq-iff-fieldwise": (x == y) == fieldwise if not T.__name__.startswith("U") else True,
                          "ne-is-not-eq": (x != y) == (not (x == y))}
                if x == y:
                    try:
                        checks["equal-hash-equal"] = hash(x) == hash(y)
                    except TypeError:
                        pass
                checks["falsy-iff-all-fields-falsy"] = bool(x) == any(bool(getattr(x, n)) for n in names)
                checks["not-equal-to-other-types"] = (x != 5) and (x != None) and not (x == "s")  # noqa: E711
            except Exception as e:  # noqa: BLE001
                checks = {f"raises {type(e).__name__}: {e}": False}
            bad = [k for k, v in checks.items() if not v]
            b.case((p.key(), id(x) % 997, id(y) % 997), not bad, observed=f"violated {bad}", inputs={"definition": p.text.split(chr(10))[-1]})
        # constructor == assigning on a default instance; unspecified fields take the zero value
        if vals and not T.dynamic:
            v = vals[-1]
            raw_names = [f._name for f in T.__fields__ if f.name is not None]
            try:
                kw = {n: getattr(v, n) for n in raw_names}
                a = T(**kw)
                d0 = T()
                for n in raw_names:
                    setattr(d0, n, getattr(v, n))
                # (a single positional Pointer value is probed with hasattr(value, "read"), which dereferences it: observation O4
                #  in DESIGN.md; pointer fields are constructed by keyword here)
                has_ptr = any(type(getattr(v, n)).__name__.endswith("*") for n in raw_names)
                pos = T(*[getattr(v, n) for n in raw_names]) if len(raw_names) == len(T.__fields__) and not has_ptr else a
                part = T(**{raw_names[0]: kw[raw_names[0]]}) if raw_names else T()
                dpart = T()
                if raw_names:
                    setattr(dpart, raw_names[0], kw[raw_names[0]])
                ok = a == d0 and pos == a and part == dpart and a.dumps() == d0.dumps() and T().dumps() == bytes(len(T))
                obs = f"kw={a!r} assigned={d0!r} positional={pos!r} default dump={T().dumps().hex()}"
            except Exception as e:  # noqa: BLE001
                ok, obs = False, f"raises {type(e).__name__}: {e}"
            b.case((p.key(), "ctor"), ok, observed=obs, inputs={"definition": p.text.split(chr(10))[-1]})
    # assignment is local to the instance: assigning every field of one default instance leaves another default instance
    # (existing or new) at the zero value
    loc = Bounded("assignment-local-to-the-instance", "family F singles and multi-field programs (fixed-size): assign each field of one default instance, observe a second and a fresh one")
    for p in [q for q in sets.singles(endians=("<",), aligns=(False, True)) if _fixed(q)] + [Program(k, "<", a) for k in (["anon_s", "u8"], ["u8", "anon_u"], ["named_s", "anon_s"]) for a in (False, True)]:
        try:
            cs = p.load(False)
            T = cs.T
            a, other = T(), T()
            zero = T().dumps()
            src = T(bytes((i * 13 + 5) % 256 for i in range(len(T))))
            for name in T.fields:
                try:
                    setattr(a, name, getattr(src, name))
                except Exception:  # noqa: BLE001
                    continue
            ok = other.dumps() == zero and T().dumps() == zero
            obs = f"other instance dumps {other.dumps().hex()}, fresh default dumps {T().dumps().hex()}, expected {zero.hex()}"
        except Exception as e:  # noqa: BLE001
            ok, obs = False, f"raises {type(e).__name__}: {e}"
        loc.case(p.key(), ok, observed=obs, inputs={"definition": p.text.split(chr(10))[-1], "align": p.align})
    loc.add_to(rep)
    # in-place mutation of one cell of a default-constructed instance (array element, field of an array element, nested
    # field) changes exactly that cell: no two cells of a default instance are the same object
    cell = Bounded("in-place-cell-assignment", "family F singles (fixed-size, non-union) + arrays of arrays / of structures: every integer cell reachable in a default instance (<= 12 per program) set in place, dump re-parsed and compared cell by cell")
    for p in [q for q in sets.singles(endians=("<",), aligns=(False,)) if _fixed(q) and not q.union]:
        try:
            T = p.load(False).T
            n_cells = len(_cells(T()))
        except Exception:  # noqa: BLE001
            continue
        for ci in range(min(n_cells, 12)):
            try:
                x = T()
                base = _leaves(T(x.dumps()))
                setter = _cells(x)[ci]
                setter(1)
                after = _leaves(T(x.dumps()))
                changed = [i for i, (u, v) in enumerate(zip(base, after)) if u != v]
                ok = len(base) == len(after) and len(changed) == 1
                obs = f"cell #{ci} set to 1 in a default instance: {len(changed)} cells differ after dumps/parse ({changed[:6]})"
            except Exception as e:  # noqa: BLE001
                ok, obs = False, f"raises {type(e).__name__}: {e}"
            cell.case((p.key(), ci), ok, observed=obs, inputs={"definition": p.text.split(chr(10))[-1], "cell": ci})
    cell.add_to(rep)
    b.add_to(rep)
    rep.extra["rule"] = "templates for n fields (n in a fixed list up to 24); assignment locality per fixed-size program; instance pairs per program"
    rep.extra["explanation"] = (
        "T1 on the generated text (templates returned by _make__eq__/__bool__/__hash__/_make_structure__init__ for placeholder names): "
        "the AST of each template is checked against the specified shape (same-class test and tuple comparison in field order, any([...]) "
        "over all fields, hash of the field tuple, argument -> field binding in definition order with None -> i-th constant) and the "
        "installed methods are those templates with names/constants substituted (code-object comparison). T2: assigning one field of a "
        "parsed fixed-size structure changes, in dumps(), exactly the bytes/bits of that field (reference mask) - for all contents. "
        "Equality/hash/bool/constructor equivalences on concrete instance pairs: bounded."
    )
    rep.assumptions += T2_ASSUMPTIONS
    return rep


def _eq(a, b):
    try:
        return bool(a == b)
    except Exception:  # noqa: BLE001
        return False


def _fixed(p):
    try:
        return p.load(False).T.size is not None
    except Exception:  # noqa: BLE001
        return False


def _cells(obj, depth=0):
    """Setters for every plain-integer cell reachable in an instance through fields, nested structures and lists."""
    import enum

    from dissect.cstruct.types import Structure, Union

    out = []
    if depth > 5:
        return out

    def plain(v):
        return isinstance(v, int) and not isinstance(v, (bool, enum.Enum)) and not hasattr(v, "dereference")

    def walk_list(lst, d):
        for i, v in enumerate(lst):
            if plain(v):
                out.append(lambda val, lst=lst, i=i: lst.__setitem__(i, val))
            elif isinstance(v, list):
                walk_list(v, d + 1)
            elif isinstance(v, Structure) and not isinstance(v, Union):
                out.extend(_cells(v, d + 1))

    for f in type(obj).__fields__:
        if f.bits:
            continue
        v = getattr(obj, f._name)
        if type(v).__name__ == "UnionProxy" or isinstance(v, Union):
            continue  # members of a union are views of one buffer by design (C11)
        if plain(v):
            out.append(lambda val, o=obj, n=f._name: setattr(o, n, val))
        elif isinstance(v, list):
            walk_list(v, depth + 1)
        elif isinstance(v, Structure):
            out.extend(_cells(v, depth + 1))
    return out


def _leaves(v):
    from runtime.sig import repr_value

    flat = []

    def walk(x):
        if isinstance(x, tuple):
            for y in x:
                walk(y)
        else:
            flat.append(x)

    walk(repr_value(v))
    return flat
