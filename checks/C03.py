"""C03 - compiled reader == interpreted reader (translation validation per generated program)."""
from __future__ import annotations

from checks.common import Report, layout_signature
from pyvc.harness import run_cases
from t2 import sets


def run(tier, seed):
    rep = Report("C03", tier, seed, "translation_validation", "./vf check C03 --tier " + tier)
    progs = sets.quick_programs(seed) if tier == "quick" else sets.thorough_programs(seed)
    progs = sets.dedupe(progs + [p for p in sets.focused_programs(sorted(sets.BIT_KINDS), seed, partners=(), tier="quick",
                                                                 sandwich=("u8", "inner", "a_u16_3", "d_char")) if len(p.kinds) == 3])
    from checks.t2util import prove_summaries

    prove_summaries(rep, tier)
    specs = [("t2.cases", "make_rel", (p.to_json(),)) for p in progs]
    # arbitrary (also unaligned) start position for flat fixed-size aligned definitions (pointer targets, records mid-file)
    anyp = sets.flat_aligned(sets.reduced_programs(seed) if tier == "quick" else progs)
    rep.add_case_results(run_cases([("t2.cases", "make_rel_any", (p.to_json(),)) for p in anyp]), "T2")
    specs += [("contracts.compiler", "make_fallback", (i,)) for i in range(3)]
    res = run_cases(specs)
    rep.add_case_results(res[: len(progs)], "T2")
    rep.add_case_results(res[len(progs):], "T1")
    rep.programs = len(progs)
    for p in progs:
        try:
            rep.program_sigs.add(layout_signature(p, p.load(False).T))
        except Exception:  # noqa: BLE001 - rejected definitions are counted by the case itself
            pass
    for p in progs[:3]:
        rep.samples.append({"program": p.key(), "definition": p.text.split("\n")[-1]})
    # generator helpers: _optimize_struct_fmt is a run-length encoder over (count, char) entries producing a format string
    # (string building with counts: bounded exhaustive)
    import itertools
    import struct as _struct

    from dissect.cstruct.compiler import _optimize_struct_fmt
    from runtime.bounded import Bounded

    b = Bounded("_optimize_struct_fmt", "all entry lists of length <= 4 over counts {0,1,2,3,12} x chars {x,B,H,I}: the optimised format unpacks every buffer exactly like the naive expansion")
    entries = [(c, ch) for c in (0, 1, 2, 3, 12) for ch in "xBHI"]
    maxlen = 3 if tier == "quick" else 4
    for n in range(0, maxlen + 1):
        for combo in itertools.product(entries, repeat=n):
            info = [(None, c, ch) for c, ch in combo]
            naive = "".join(ch * c for c, ch in combo)
            try:
                fmt = _optimize_struct_fmt(iter(info))
                if not naive:
                    ok = fmt == ""
                    obs = f"{fmt!r} for an empty expansion"
                else:
                    size = _struct.calcsize("<" + naive)
                    buf = bytes((i * 7 + 1) % 256 for i in range(size))
                    ok = _struct.calcsize("<" + fmt) == size and _struct.unpack("<" + fmt, buf) == _struct.unpack("<" + naive, buf)
                    obs = f"optimised {fmt!r} vs naive {naive!r}"
            except Exception as e:  # noqa: BLE001
                ok, obs = False, f"raises {type(e).__name__}: {e}"
            b.case(combo, ok, observed=obs, inputs={"info": [list(x) for x in combo]})
    b.add_to(rep)
    rep.extra["rule"] = (
        "programs = family F (t2/sets.py): every kind alone, every ordered pair of the quick alphabet (heavy kinds only with "
        "cheap partners), seeded longer sequences; x endian {<,>} x {packed, aligned}; distinct = distinct layout signature "
        "(offsets, bit widths, member sizes/alignments, size, alignment, endian, mode)"
    )
    rep.extra["explanation"] = (
        "per program both readers (real interpreted text, generated text from __source__) are executed symbolically on the same "
        "symbolic stream (bytes, length, start position); every pair of feasible paths must agree on values, _sizes of byte-"
        "occupying fields and final position, and may not contradict each other on refusal"
    )
    rep.assumptions += [
        "quantifier over definitions is covered by the enumerated family only (bound over programs, not over data)",
        f"data-dependent loops without invariant (null-terminated / [EOF] / LEB128 / expression-sized arrays of non-packed elements) are unrolled to {__import__('t2.cases').cases.UNROLL} iterations; longer inputs are not covered by these runs",
    ]
    return rep
