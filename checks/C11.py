"""C11 - union members are coherent views of one byte buffer."""
from __future__ import annotations

import itertools
import random

from checks.common import Report
from checks.t2util import T2_ASSUMPTIONS, run_pipeline
from pyvc.harness import run_cases
from runtime.bounded import Bounded
from t2.family import Program

UNION_MEMBERS = [
    ["u32", "u8"], ["u16", "u64", "u8"], ["inner", "u16"], ["a_u16_3", "u32"], ["named_s", "u64"], ["anon_s", "u32"],
    ["i24", "u16"], ["a_char_4", "u32"], ["anon_s", "u8"], ["u8", "anon_s", "u16"], ["e8", "u16"], ["ptr", "u8"], ["f32", "u32"], ["a_inner_2", "u8"], ["wchar", "u8"],
]

HISTORY_DEFS = [
    ("union U { uint32 full; uint16 half[2]; uint8 b[4]; };", False),
    ("union U { struct { uint16 lo; uint16 hi; } parts; uint32 full; };", False),
    ("union U { struct { uint16 lo; uint16 hi; }; uint32 full; };", False),
    ("union U { struct { uint8 p; struct { uint8 q; uint8 r; } in2; } m0; uint32 w; };", False),
    ("union U { struct { uint8 x; uint16 y; } m0; uint16 m1; uint8 raw[4]; };", True),
    ("union U { uint64 q; struct { uint32 a; uint32 b; } two; uint8 bytes[8]; };", False),
    ("union U { union { struct { uint8 a; uint8 b; } s; uint16 w; } inn; uint32 full; };", False),
    ("union U { struct { uint16 lo; uint16 hi; }; uint8 b; };", False),
    ("union U { struct { uint32 w; }; struct { uint8 a; uint8 b; uint8 c; }; uint16 h; };", False),
    ("union U { union { struct { uint8 a; uint8 b; } s; uint32 w; } inn; uint32 z; };", False),
    ("union U { uint16 k; union { uint8 t; struct { uint8 a; union { uint8 c; uint16 d; } deep; } s; } inn; };", False),
]


def run(tier, seed):
    from dissect.cstruct import cstruct

    rep = Report("C11", tier, seed, "other", "./vf check C11 --tier " + tier)
    from contracts import layout

    rep.add_case_results(run_cases([s for s in layout.specs(tier) if s[1] == "make_union"]), "T1")
    progs = [Program(m, e, a, union=True) for m in UNION_MEMBERS for e in "<>" for a in (False, True)]
    rep.add_case_results(run_cases([("t2.cases", "make_layout", (p.to_json(),)) for p in progs]), "T2")
    rep.add_case_results(run_cases([("t2.cases", "make_union_coh", (p.to_json(),)) for p in progs]), "T2")
    run_pipeline(rep, progs, ["C01", "C02", "C04"], modes=(False,))
    # ---- assignment histories (proxy plumbing is CPython object machinery: bounded)
    rnd = random.Random(seed)
    h = Bounded("assignment-histories", f"{len(HISTORY_DEFS)} union definitions x all leaf paths x sequences of <= 3 assignments (exhaustive over paths, seeded values) x both byte orders")
    for text, align in HISTORY_DEFS:
        for endian in "<>":
            cs = cstruct(endian=endian)
            cs.load(text, align=align)
            U = cs.U
            paths = leaf_paths(U)
            nseq = 3 if tier == "quick" else 4
            seqs = list(itertools.chain.from_iterable(itertools.product(paths, repeat=k) for k in range(1, nseq + 1)))
            rnd.shuffle(seqs)
            for seq in seqs[: (150 if tier == "quick" else 1200)]:
                init = bytes(rnd.randrange(256) for _ in range(len(U)))
                try:
                    u = U(init)
                    buf = bytearray(init)
                    log = []
                    for path in seq:
                        val = rnd.randrange(0, 1 << (8 * path[2])) if not path[3] else rnd.randrange(0, 1 << (8 * path[2]))
                        assign(u, path, val)
                        ref_assign(cs, U, buf, path, val, endian)
                        log.append(("/".join(map(str, path[0])), val))
                    want = bytes(buf)
                    got = u.dumps()
                    members_ok = all(member_bytes(u, f) == reparse_dump(U, f, want) for f in U.__fields__)
                    ok = same_modulo_padding(U, got, want, endian) and members_ok
                    obs = f"dumps {got.hex()} expected {want.hex()} members_ok={members_ok}"
                except Exception as e:  # noqa: BLE001
                    ok, obs, log = False, f"raises {type(e).__name__}: {e}", [("/".join(map(str, p[0])), None) for p in seq]
                h.case((text, endian, tuple("/".join(map(str, p[0])) for p in seq)), ok, observed=obs,
                       inputs={"definition": text, "align": align, "endian": endian, "initial": init.hex(), "assignments": log})
    h.add_to(rep)
    # assignments through a *held* reference to a nested member (p = u.m; p.x = 1; p.y = 2)
    hp = Bounded("held-proxy", "definitions with a nested structure member x pairs of assignments through one held reference")
    for text, align in HISTORY_DEFS:
        cs = cstruct()
        cs.load(text, align=align)
        U = cs.U
        paths = [p for p in leaf_paths(U) if len(p[0]) >= 2]
        tops = sorted({p[0][0] for p in paths})
        for top in tops:
            sub = [p for p in paths if p[0][0] == top and len(p[0]) == 2]
            for a, b2 in itertools.product(sub, repeat=2):
                init = bytes(rnd.randrange(256) for _ in range(len(U)))
                try:
                    u = U(init)
                    buf = bytearray(init)
                    held = getattr(u, top)
                    vals = []
                    for path in (a, b2):
                        val = rnd.randrange(0, 1 << (8 * path[2]))
                        setattr(held, path[0][1], val)
                        ref_assign(cs, U, buf, path, val, "<")
                        vals.append(("/".join(path[0]), val))
                    got, want = u.dumps(), bytes(buf)
                    ok = same_modulo_padding(U, got, want, "<")
                    obs = f"dumps {got.hex()} expected {want.hex()}"
                except Exception as e:  # noqa: BLE001
                    ok, obs, vals = False, f"raises {type(e).__name__}: {e}", []
                hp.case((text, top, a[0], b2[0]), ok, observed=obs, inputs={"definition": text, "held": top, "assignments": vals, "initial": init.hex()})
    hp.add_to(rep)
    # whole-member assignment of a structure value (same bytes / other bytes) followed by a nested assignment through the union
    wm = Bounded("member-struct-assignment-then-nested", "definitions with a named nested structure member: u.m = T(...) (identical and different bytes) then u.m.<leaf> = v")
    for text, align in HISTORY_DEFS:
        cs = cstruct()
        cs.load(text, align=align)
        U = cs.U
        for f in U.__fields__:
            from dissect.cstruct.types import Structure

            if f.name is None or not issubclass(f.type, Structure) or f.type.dynamic:
                continue
            sub = [p for p in leaf_paths(U) if p[0][0] == f.name and len(p[0]) == 2]
            for same in (True, False):
                for path in sub:
                    init = bytes(rnd.randrange(1, 256) for _ in range(len(U)))
                    try:
                        u = U(init)
                        buf = bytearray(init)
                        off = f.offset or 0
                        raw = bytes(buf[off : off + len(f.type)]) if same else bytes(rnd.randrange(256) for _ in range(len(f.type)))
                        newv = f.type(raw)
                        setattr(u, f.name, newv)
                        buf[off : off + len(f.type)] = f.type.dumps(newv)
                        val = rnd.randrange(0, 1 << (8 * path[2]))
                        assign(u, path, val)
                        ref_assign(cs, U, buf, path, val, "<")
                        got, want = u.dumps(), bytes(buf)
                        members_ok = all(member_bytes(u, g) == reparse_dump(U, g, want) for g in U.__fields__)
                        ok = same_modulo_padding(U, got, want, "<") and members_ok
                        obs = f"dumps {got.hex()} expected {want.hex()} members_ok={members_ok}"
                    except Exception as e:  # noqa: BLE001
                        ok, obs = False, f"raises {type(e).__name__}: {e}"
                    wm.case((text, f.name, same, path[0]), ok, observed=obs, inputs={"definition": text, "member": f.name, "identical_bytes": same, "then": "/".join(path[0])})
    wm.add_to(rep)
    # constructed (not parsed) unions: default instances are independent of each other, value initialisation rebuilds from the
    # first given member whatever its type, and an assignment is carried out whenever the *bytes* differ (not only when != holds)
    cons = Bounded("constructed-unions", "default / positional / keyword construction and byte-level (not ==-level) assignments on hand-picked definitions")
    import struct as _st

    def ccase(name, fn, **inputs):
        try:
            ok, obs = fn()
        except Exception as e:  # noqa: BLE001
            ok, obs = False, f"raises {type(e).__name__}: {e}"
        cons.case(name, ok, observed=obs, inputs=inputs)

    for text, _align in HISTORY_DEFS:
        for endian in "<>":
            def fresh(text=text, endian=endian):
                cs = cstruct(endian=endian)
                cs.load(text)
                U = cs.U
                paths = leaf_paths(U)
                u1, u2 = U(), U()
                zero = U().dumps()
                for path in paths[:6]:
                    assign(u1, path, (1 << (8 * path[2])) - 2)
                u3 = U()
                okk = u2.dumps() == zero and u3.dumps() == zero and all(member_bytes(u3, f) == reparse_dump(U, f, zero) for f in U.__fields__)
                # a later assignment on the untouched / fresh instance starts from zero bytes
                if paths:
                    buf = bytearray(zero)
                    assign(u3, paths[-1], 1)
                    ref_assign(cs, U, buf, paths[-1], 1, endian)
                    okk = okk and same_modulo_padding(U, u3.dumps(), bytes(buf), endian)
                return okk, f"after assignments on one default instance: another dumps {u2.dumps().hex()}, a fresh one {u3.dumps().hex()} (zero = {zero.hex()})"

            ccase(("default-instances-independent", text, endian), fresh, definition=text, endian=endian)

    def positional():
        cs = cstruct()
        cs.load("union U { char tag[4]; uint32 a; struct { uint16 lo; uint16 hi; } w; };")
        u = cs.U(b"ABCD", 5)
        v = cs.U(b"ABCD")  # a buffer of the union's size: parsed
        k = cs.U(tag=b"ABCD")
        okk = u.dumps() == b"ABCD" and u.a == 0x44434241 and u.w.lo == 0x4241 and v.dumps() == b"ABCD" and k.dumps() == b"ABCD" and k.a == u.a
        u.w.hi = 0x5A5A
        okk = okk and u.dumps() == b"ABZZ" and u.tag == b"ABZZ"
        return okk, f"U(b'ABCD', 5): dumps {u.dumps()!r} a={u.a:#x} tag={u.tag!r}"

    ccase("positional-initialisation-char-first", positional, definition="union U { char tag[4]; uint32 a; struct { uint16 lo; uint16 hi; } w; };")

    def bytes_not_eq():
        cs = cstruct()
        cs.load("union U { struct { float x; float y[2]; uint8 n; } v; uint8 raw[13]; };")
        u = cs.U(bytes(13))
        u.v.x = -0.0  # == 0.0, other bytes
        a = bytes(u.raw[:4])
        u.v.y = [0.0, -0.0]
        b = bytes(u.raw[4:12])
        arr = u.v.y
        arr[0] = 1.5
        u.v.y = arr  # the same list object, modified in place
        c = bytes(u.raw[4:8])
        u.v.n = True  # == 1
        okk = a == _st.pack("<f", -0.0) and b == _st.pack("<2f", 0.0, -0.0) and c == _st.pack("<f", 1.5) and u.raw[12] == 1
        return okk, f"raw after -0.0 / [0.0, -0.0] / in-place list: {a.hex()} {b.hex()} {c.hex()} n={u.raw[12]}"

    ccase("assignment-by-bytes-not-by-equality", bytes_not_eq, definition="union U { struct { float x; float y[2]; uint8 n; } v; uint8 raw[13]; };")
    cons.add_to(rep)
    rep.extra["rule"] = "union programs: member kinds of every fixed-size class x endian x mode; histories: definitions x assignment paths x values"
    rep.extra["explanation"] = (
        "deductive part: union layout (T1: size = max member size rounded up to the max alignment, alignment = max), per union program "
        "(T2, all contents): parsing consumes exactly len(U), every member equals the parse of its type from the union bytes, dump/parse "
        "round trip; assignment histories run through CPython attribute machinery (__setattr__, __dict__.update, UnionProxy) and are "
        "compared with a byte-buffer reference model: bounded"
    )
    rep.assumptions += T2_ASSUMPTIONS
    return rep


def leaf_paths(U):
    """(attribute path, byte offset in the union, size, is_array_elem) for every integer leaf reachable through members"""
    from dissect.cstruct.types import Structure
    from dissect.cstruct.types.base import BaseArray

    out = []

    def walk(t, path, off):
        for f in t.__fields__:
            fo = off + (f.offset or 0)
            ft = f.type
            if issubclass(ft, Structure):
                walk(ft, path + ([f.name] if f.name else []), fo)
            elif issubclass(ft, BaseArray):
                continue
            elif issubclass(ft, int) and f.bits is None:
                out.append((tuple(path + [f._name]), fo, ft.size, False))

    walk(U, [], 0)
    return out


def assign(u, path, val):
    obj = u
    for name in path[0][:-1]:
        obj = getattr(obj, name)
    setattr(obj, path[0][-1], val)


def ref_assign(cs, U, buf, path, val, endian):
    """Reference: the new bytes of the TOP-LEVEL member the path goes through are that member's own dump (which zeroes the
    member's internal padding), everything else keeps its old bytes."""
    top = path[0][0]
    f = U.lookup.get(top)
    if f is None:
        # member of an anonymous struct: the top-level member is the anonymous struct that holds it
        f = next(x for x in U.__fields__ if x.name is None and top in x.type.fields)
    mt = f.type
    moff = f.offset or 0
    cur = mt(bytes(buf[moff : moff + len(mt)])) if hasattr(mt, "__fields__") else None
    if cur is None:
        new = val.to_bytes(path[2], "little" if endian == "<" else "big")
    else:
        obj = cur
        rel = path[0][1:] if f.name is not None else path[0]
        for name in rel[:-1]:
            obj = getattr(obj, name)
        setattr(obj, rel[-1], val)
        new = cur.dumps()
    buf[moff : moff + len(new)] = new


def member_bytes(u, f):
    v = getattr(u, f._name)
    v = getattr(v, "__target__", v)
    return f.type.dumps(v)


def reparse_dump(U, f, raw):
    off = f.offset or 0
    return f.type.dumps(f.type(raw[off:]))


def same_modulo_padding(U, got, want, endian):
    """bits that are padding in every member may differ"""
    from specs import layout

    if len(got) != len(want):
        return False
    m = layout.mask(layout.describe(U), endian)
    return all((a & k) == (b & k) for a, b, k in zip(got, want, m))
