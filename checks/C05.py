"""C05 - scalar codecs implement the standard encodings under the *current* endianness."""
from __future__ import annotations

from checks.common import Report
from checks.t2util import T2_ASSUMPTIONS, T2_RULE, programs_for, run_pipeline
from pyvc.harness import run_cases


def run(tier, seed):
    rep = Report("C05", tier, seed, "proof", "./vf check C05 --tier " + tier)
    from contracts import leaf

    specs = leaf.specs(("read", "write", "roundtrip"), tier)
    specs += [("contracts.tables", "make_table", ("names",)), ("contracts.tables", "make_table", ("endianness",))]
    specs += leaf.array_specs(tier)
    # the call forms T(x), T.read, T.reads, cs.read on buffers and streams decode in the current byte order too
    specs += [("contracts.dispatch", "make_dispatch", (w,)) for w in ("forms", "forms:>", "forms:!")]
    from contracts import lemmas

    specs += lemmas.specs(tier)
    res = run_cases(specs)
    rep.add_case_results(res, "T1")
    # compiled structures follow the current byte order too: C03-style relational run after switching the byte order
    from t2 import sets

    progs = [p for p in sets.singles(endians=("<", ">")) if not any(k in sets.HEAVY for k in p.kinds)]
    if tier == "quick":
        progs = progs[::2]
    from checks.t2util import prove_summaries

    prove_summaries(rep, tier)
    r2 = run_cases([("t2.cases", "make_switch", (p.to_json(),)) for p in progs])
    rep.add_case_results(r2, "T2")
    rep.programs = len(progs)
    rep.extra["rule"] = "every built-in scalar type x byte order {<,>,!} x {read, write, round trip}; byte order switched after type creation and after a native warm-up of every codec entry point"
    rep.extra["explanation"] = (
        "T1 per type class and byte order: _read returns exactly the standard decoding (Horner form, two's complement) of the size "
        "bytes at the stream position, _write emits the digit decomposition, LEB128 against the recursive canonical definition with "
        "loop invariants; tables (type table, alias table, endianness maps) compared exhaustively; T2: compiled and interpreted "
        "readers of a definition loaded under one byte order agree after the byte order is switched"
    )
    rep.assumptions += ["floats are IEEE bit patterns moved by struct (opaque), UTF-16 text is its code units (opaque codec)",
                        "native byte-order codes '@' and '=' are outside the claimed domain"]
    return rep
