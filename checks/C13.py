"""C13 - definition parsing ignores comments, spacing and order of unrelated definitions; aliases resolve exactly."""
from __future__ import annotations

import itertools
import random
import re

from checks.common import Report
from pyvc.harness import run_cases
from runtime.bounded import Bounded
from runtime.sig import cs_sig
from specs.comments import strip_comments

CORPUS = [
    "struct a { uint8 x; uint16 y[2]; char name[4]; };",
    "struct b { uint32 flags:4; uint32 rest:28; int24 z; };",
    "typedef struct _c { uint8 n; uint16 d[n]; char s[]; } c;",
    "enum E : uint16 { A, B = 5, C };\nstruct d { E e; E es[2]; };",
    "#define N 3\nstruct e { uint8 v[N]; uint8 w[N * 2 + 1]; };",
    "typedef uint32 DW;\ntypedef DW DW2;\nstruct f { DW2 a; DW b[2]; uint8 *p; };",
    "struct g { struct { uint8 a; uint8 b; } in; union { uint16 w; uint8 h[2]; }; uint8 t[EOF]; };",
    "flag F { X, Y, Z = 0x10 };\nstruct h { F f:3; F g:5; uint8 m[2][3]; };",
    "struct i { wchar w[2]; uleb128 v; int8 s; };",
    "typedef struct _m { uint8 q; uint16 r; } m1, m2, m3;",
    "struct tag { uint8 z; } v1, v2;\nstruct usev { v1 a; v2 b; tag c; };",
    "typedef union _n { uint16 w; uint8 h[2]; } n1, n2;",
    "typedef struct { uint8 k; uint16 l; } rec_t;\nstruct user { rec_t r; };",
    "struct { uint8 z; uint16 q; } point;\nstruct usep { point p; };",
    "typedef union { uint8 k; uint16 l; } un_t;\nstruct useu { un_t u; uint8 t; };",
    "typedef uint32 *ptr_t;\ntypedef char *str_t;\nstruct usep { ptr_t p; str_t s; uint8 *q; };",
]
UNITS = [
    "struct un1 { uint8 a; uint16 b; };",
    "enum UN2 : uint8 { P, Q };",
    "typedef uint16 un3_t;",
    "#define UN4 7",
    "struct un5 { char s[4]; uint32 v; };",
    "flag UN6 { M, N };",
    # a constant and an enum member with the same name: the member's own declaration decides what the name means inside it
    "#define UN7A 9",
    "enum UN7 { UN7A = 1, UN7B = UN7A + 1, UN7C };",
]
CTOKEN = re.compile(r"\s*([A-Za-z_][A-Za-z0-9_]*|0[xX][0-9a-fA-F]+|\d+|<<|>>|[{};\[\]:*,=()+\-/%&|^~#])")
SAMPLE = bytes((i * 73 + 11) % 256 for i in range(96))


def c_token_boundaries(text):
    """Offsets between C tokens where blank space / a comment may be inserted: not inside [...] and not on #define lines."""
    out = []
    pos = 0
    depth = 0
    for line_start, line in _lines(text):
        if line.lstrip().startswith("#"):
            continue
        i = 0
        while i < len(line):
            m = CTOKEN.match(line, i)
            if not m:
                break
            tok = m.group(1)
            start, end = m.start(1), m.end(1)
            if tok == "[":
                if depth == 0:
                    out.append(line_start + start)  # before '[' (outside the brackets)
                depth += 1
            elif tok == "]":
                depth -= 1
                if depth == 0:
                    out.append(line_start + end)
            elif depth == 0:
                out.append(line_start + start)
                out.append(line_start + end)
            i = end
    return sorted(set(out))


def _lines(text):
    pos = 0
    for line in text.split("\n"):
        yield pos, line
        pos += len(line) + 1


def load_sig(text, **kw):
    from dissect.cstruct import cstruct

    cs = cstruct()
    cs.load(text, **kw)
    return cs_sig(cs, SAMPLE)


def run(tier, seed):
    from dissect.cstruct.parser import TokenParser

    rep = Report("C13", tier, seed, "other", "./vf check C13 --tier " + tier)
    rep.add_case_results(run_cases([("contracts.cstructfns", "make_fn", ("resolve",)), ("contracts.cstructfns", "make_fn", ("add_type",))]), "T1")
    rnd = random.Random(seed)
    # (1) comment stripping vs the reference state machine, exhaustive over short strings
    cm = Bounded("comment-stripping", "all strings of length <= 6 (quick) / 7 (thorough) over {/,*,\",',a,space,newline}")
    alpha = ["/", "*", '"', "'", "a", " ", "\n"]
    maxlen = 6 if tier == "quick" else 7
    for n in range(0, maxlen + 1):
        for tup in itertools.product(alpha, repeat=n):
            s = "".join(tup)
            got = TokenParser._remove_comments(s)
            want = strip_comments(s)
            if got != want:
                cm.case(s, False, observed=f"{got!r} expected {want!r}", inputs=s)
            else:
                cm.evaluations += 1
                if "/" in s and n >= 2:
                    cm.distinct.add(s)
    cm.samples = ["a/*\n*/a", "//a\na", "'/*'a"]
    cm.add_to(rep)
    # (2) whitespace / comments between C tokens
    ins = Bounded("insertion-at-token-boundaries", f"{len(CORPUS)} definitions x every C-token boundary outside [...] and #define lines x 5 insertions, compiled and interpreted")
    insertions = [" ", "\n", "\t  ", " /* c */ ", " // c\n"]
    for text in CORPUS:
        for compiled in (True, False):
            try:
                base = load_sig(text, compiled=compiled)
            except Exception as e:  # noqa: BLE001
                ins.case((text, "baseline"), False, observed=f"baseline raises {e!r}", inputs=text)
                continue
            bounds = c_token_boundaries(text)
            for b in bounds:
                for insn in (insertions if tier != "quick" else insertions[: 5 : (1 if compiled else 2)]):
                    mod = text[:b] + insn + text[b:]
                    try:
                        sig = load_sig(mod, compiled=compiled)
                        ok, obs = sig == base, None if sig == base else diff_sig(base, sig)
                    except Exception as e:  # noqa: BLE001
                        ok, obs = False, f"raises {type(e).__name__}: {e}"
                    ins.case((text, b, insn, compiled), ok, observed=obs, inputs={"definition": mod, "inserted": insn, "at": b, "compiled": compiled})
    ins.add_to(rep)
    # (3) order of unrelated definitions
    od = Bounded("order-of-unrelated-definitions", f"all permutations of {len(UNITS)} independent definitions (quick: 120 seeded), one load and split loads")
    perms = list(itertools.permutations(range(len(UNITS))))
    rnd.shuffle(perms)
    base = load_sig("\n".join(UNITS))
    for perm in perms[: (120 if tier == "quick" else 720)]:
        text = "\n".join(UNITS[i] for i in perm)
        try:
            sig = load_sig(text)
            from dissect.cstruct import cstruct

            cs2 = cstruct()
            for i in perm:
                cs2.load(UNITS[i])
            sig2 = cs_sig(cs2, SAMPLE)
            ok = sig == base and sig2 == base
            obs = None if ok else diff_sig(base, sig if sig != base else sig2)
        except Exception as e:  # noqa: BLE001
            ok, obs = False, f"raises {type(e).__name__}: {e}"
        od.case(perm, ok, observed=obs, inputs={"order": list(perm)})
    od.add_to(rep)
    # (4) aliases
    al = Bounded("aliases", "typedef chains, several names after a struct typedef, built-in synonyms, re-declaration")
    from dissect.cstruct import cstruct
    from dissect.cstruct.exceptions import ResolveError

    cs = cstruct()
    cs.load("typedef struct _s { uint8 a; } s1, s2;\ntypedef s1 *ps;\ntypedef s1 s3;\ntypedef s3 s4;\ntypedef uint32 d1;\ntypedef d1 d2;")
    al.case("struct-typedef-names", cs.s1 is cs.s2 is cs._s is cs.s3 is cs.s4, inputs="typedef struct _s {...} s1, s2, *ps; typedef s1 s3; typedef s3 s4;")
    al.case("pointer-name", cs.ps.type is cs._s and cs.ps.__name__.endswith("*"), inputs="*ps")
    al.case("scalar-chain", cs.d2 is cs.d1 is cs.uint32 is cs.DWORD, inputs="typedef uint32 d1; typedef d1 d2;")
    for name, target in (("WORD", "uint16"), ("unsigned long long", "uint64"), ("__int128", "int128"), ("u1", "uint8")):
        al.case(("synonym", name), cs.resolve(name) is cs.resolve(target), inputs=name)
    for text, ok_expected in (("typedef uint32 d1;", True), ("typedef DWORD d1;", True), ("typedef uint16 d1;", False), ("struct _s { uint8 a; };", False)):
        c2 = cstruct()
        c2.load("typedef struct _s { uint8 a; } s1;\ntypedef uint32 d1;")
        try:
            c2.load(text)
            got = True
        except ValueError:
            got = False
        al.case(("redeclare", text), got == ok_expected, observed=f"accepted={got}", inputs=text)
    for text in ("struct q { nosuch x; };", "typedef nosuch t;"):
        try:
            cstruct().load(text)
            got = "accepted"
        except ResolveError:
            got = "ResolveError"
        except Exception as e:  # noqa: BLE001
            got = type(e).__name__
        al.case(("unknown", text), got == "ResolveError", observed=got, inputs=text)
    al.add_to(rep)
    rep.extra["rule"] = "short strings for the comment stripper; corpus x C-token boundaries x insertions; permutations of independent definitions; alias forms"
    rep.extra["explanation"] = (
        "deductive part (T1): cstruct.resolve returns the first non-string on the alias chain, refuses unknown, cyclic and over-long chains "
        "and assigns nothing; add_type accepts a re-declaration only for the same target. The lexical clauses depend on Python's re "
        "engine (look-around, lazy groups, first-match Scanner), for which no solver theory exists: they are bounded checks against a "
        "reference comment stripper and against signature equality of the loaded types"
    )
    return rep


def diff_sig(a, b):
    out = []
    for k in sorted(set(a["types"]) | set(b["types"])):
        if a["types"].get(k) != b["types"].get(k):
            out.append(f"type {k}: {str(a['types'].get(k))[:160]} vs {str(b['types'].get(k))[:160]}")
    if a["consts"] != b["consts"]:
        out.append(f"consts {a['consts']} vs {b['consts']}")
    return "; ".join(out[:3])
