"""C04 - layout follows the C rules; declared size == bytes read == bytes written."""
from __future__ import annotations

from checks.common import Report
from checks.t2util import T2_ASSUMPTIONS, T2_RULE, programs_for, run_pipeline
from pyvc.harness import run_cases


def run(tier, seed):
    rep = Report("C04", tier, seed, "proof", "./vf check C04 --tier " + tier)
    from contracts import layout

    specs = layout.specs(tier) + [("contracts.tables", "make_table", ("layout",)), ("contracts.cstructfns", "make_fn", ("make_array",)), ("contracts.cstructfns", "make_fn", ("make_array_identity",)),
                                  ("contracts.cstructfns", "make_fn", ("make_pointer",)), ("contracts.cstructfns", "make_fn", ("sizeof",)),
                                  ("contracts.cstructfns", "make_fn", ("make_type",))]
    rep.add_case_results(run_cases(specs), "T1")
    progs = programs_for(tier, seed, pred=lambda p: True)
    specs2 = [("t2.cases", "make_layout", (p.to_json(),)) for p in progs]
    rep.add_case_results(run_cases(specs2), "T2")
    fixed = [p for p in progs if _fixed(p)]
    run_pipeline(rep, fixed, ["C04"])
    rep.extra["rule"] = T2_RULE + "; T1 shapes: member kind x offset known/dynamic x explicit offset x mode x alignments {1,2,4,8,16}"
    rep.extra["explanation"] = (
        "T1: the loop body of _calculate_size_and_offsets processes one arbitrary member from an arbitrary invariant-satisfying state "
        "exactly like the reference step (C placement: least multiple of the member alignment in aligned mode, back to back in packed "
        "mode; bit-field unit rules of C06), the exit path pads to the least multiple of the largest alignment; unions: size = max "
        "(rounded up), alignment = max; built-in type table against the C ABI (ctypes) and the documented choices; _make_array / "
        "_make_pointer / sizeof. T2: per program the library's offsets/size/alignment equal the independent reference layout "
        "(specs/layout.py) and consumed == dumped == len(T)."
    )
    rep.assumptions += T2_ASSUMPTIONS + [
        "layout contract precondition: a storage type's size is a multiple of its alignment (checked per built-in type by the table "
        "obligation size-multiple-of-alignment; it fails for the 24/48-bit types: known finding D13)",
        "explicitly placed members (add_field(offset=...)) are constrained only as far as the C rules apply",
    ]
    return rep


def _fixed(p):
    try:
        return p.load(False).T.size is not None
    except Exception:  # noqa: BLE001
        return False
