"""C16 - pointers."""
from __future__ import annotations

from checks.common import Report
from checks.t2util import T2_ASSUMPTIONS, programs_for, run_pipeline
from pyvc.harness import run_cases
from t2 import sets
from t2.family import Program


def run(tier, seed):
    rep = Report("C16", tier, seed, "proof", "./vf check C16 --tier " + tier)
    specs = [("contracts.pointer", "make_ptr", (w, pn, e)) for w in ("read-write", "dereference", "arithmetic", "null") for pn in ("uint8", "uint16", "uint24", "uint32", "uint48", "uint64") for e in "<>"]
    specs += [("contracts.cstructfns", "make_fn", ("make_pointer",)), ("contracts.tables", "make_table", ("endianness",))]
    rep.add_case_results(run_cases(specs), "T1")
    progs = []
    for pn in ("uint8", "uint16", "uint24", "uint32", "uint48", "uint64"):
        for kinds in (["ptr"], ["ptrs"], ["a_ptr_2"], ["ptr", "u8"], ["u8", "ptr", "u16"], ["ptrs", "i24"], ["a_pnode_2"], ["u8", "pnode"], ["d_pnode"]):
            for e in "<>":
                for a in (False, True):
                    progs.append(Program(kinds, e, a, pointer=pn))
    if tier == "quick":
        progs = progs[::2]
    # network byte order spelled '!' with byte-based and packed pointer widths (every site that branches on the byte order)
    progs += [Program(k, "!", a, pointer=pn) for pn in ("uint16", "uint24", "uint48") for k in (["ptr"], ["a_ptr_2"], ["u8", "ptr", "u16"])
              for a in (False, True)]
    rep.add_case_results(run_cases([("t2.cases", "make_rel", (p.to_json(),)) for p in progs]), "T2")
    run_pipeline(rep, progs, ["C01", "C02", "C04", "C16"])
    # a byte order switched after loading is followed by compiled pointer decoding too (byte-based pointer widths included)
    sw = [Program(k, e, False, pointer=pn) for pn in ("uint16", "uint24", "uint48") for k in (["ptr"], ["a_ptr_2"], ["u8", "ptr", "u16"]) for e in "<>"]
    rep.add_case_results(run_cases([("t2.cases", "make_switch", (p.to_json(),)) for p in sw]), "T2")
    # bounded stand-in (covers what an undecided contract obligation would leave open): native dereference behaviour
    import io

    from dissect.cstruct import cstruct
    from runtime.bounded import Bounded

    b = Bounded("dereference-native", "char* strings of every length 0..300, struct / scalar / pointer-to-pointer targets, pointer widths 8..64, both byte orders: value, position restored, repeated access")
    for pn in ("uint8", "uint16", "uint32", "uint64"):
        for e in "<>":
            cs = cstruct(endian=e, pointer=pn)
            cs.load("struct tgt { uint16 a; uint8 b; }; struct H { char *s; tgt *t; uint8 **pp; uint8 tail; };")
            psz = cs.pointer.size
            for n in list(range(0, 70)) + [127, 128, 129, 191, 192, 255, 256, 300]:
                if pn == "uint8" and n > 150:
                    continue
                base = 3 * psz + 1
                text = bytes((i % 250) + 1 for i in range(n)) + b"\x00"
                s_at = base
                t_at = s_at + len(text)
                pp_at = t_at + 3
                u8_at = pp_at + psz
                if u8_at >= (1 << (8 * psz)):
                    continue
                order = "little" if e == "<" else "big"
                blob = s_at.to_bytes(psz, order) + t_at.to_bytes(psz, order) + pp_at.to_bytes(psz, order) + b"\x7e" + text + (0x1234).to_bytes(2, order) + b"\x09" + u8_at.to_bytes(psz, order) + b"\x42" + b"\xff" * 4
                fh = io.BytesIO(blob)
                try:
                    h = cs.H(fh)
                    pos0 = fh.tell()
                    checks = {
                        "char*": h.s.dereference() == text[:-1],
                        "position-restored": fh.tell() == pos0,
                        "struct*": (h.t.dereference().a, h.t.dereference().b) == (0x1234, 9) and h.t.a == 0x1234,
                        "ptr-to-ptr": h.pp.dereference().dereference() == 0x42,
                        "stable": h.s.dereference() is h.s.dereference() and fh.tell() == pos0,
                        "following-field-unaffected": h.tail == 0x7E,
                        "arithmetic": type(h.s + 1) is type(h.s) and (h.s + 1).dereference() == text[1:-1] if n else True,
                        "dump-writes-address-back": h.dumps() == blob[:base],
                    }
                except Exception as ex:  # noqa: BLE001
                    checks = {f"raises {type(ex).__name__}: {ex}": False}
                bad = [k for k, v in checks.items() if not v]
                b.case((pn, e, n), not bad, observed=f"violated {bad}", inputs={"pointer": pn, "endian": e, "string_length": n})
    b.add_to(rep)
    rep.extra["rule"] = "pointer programs (scalar target, struct target, array of pointers, pointer followed by other members) x pointer width 8..64 x endian x mode x reader"
    rep.extra["explanation"] = (
        "T1: Pointer._read/_write delegate to the configured pointer type (width, byte order, unsigned value preserved), dereference "
        "reads the target type at the absolute offset with position restored and the result cached, null / stream-less pointers raise "
        "NullPointerDereference, arithmetic yields the same class on the same stream; T2: compiled construction path == interpreted, "
        "pointer fields occupy exactly the configured width, dump writes the address back."
    )
    rep.assumptions += T2_ASSUMPTIONS
    return rep
