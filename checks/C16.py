"""C16 - pointers."""
from __future__ import annotations

from checks.common import Report
from checks.t2util import T2_ASSUMPTIONS, programs_for, run_pipeline
from pyvc.harness import run_cases
from t2 import sets
from t2.family import Program


def run(tier, seed):
    rep = Report("C16", tier, seed, "proof", "./vf check C16 --tier " + tier)
    specs = [("contracts.pointer", "make_ptr", (w, pn, e)) for w in ("read-write", "dereference", "arithmetic", "null") for pn in ("uint8", "uint16", "uint24", "uint32", "uint48", "uint64") for e in "<>"]
    specs += [("contracts.cstructfns", "make_fn", ("make_pointer",)), ("contracts.tables", "make_table", ("endianness",))]
    rep.add_case_results(run_cases(specs), "T1")
    progs = []
    for pn in ("uint8", "uint16", "uint24", "uint32", "uint48", "uint64"):
        for kinds in (["ptr"], ["ptrs"], ["a_ptr_2"], ["ptr", "u8"], ["u8", "ptr", "u16"], ["ptrs", "i24"]):
            for e in "<>":
                for a in (False, True):
                    progs.append(Program(kinds, e, a, pointer=pn))
    if tier == "quick":
        progs = progs[::2]
    rep.add_case_results(run_cases([("t2.cases", "make_rel", (p.to_json(),)) for p in progs]), "T2")
    run_pipeline(rep, progs, ["C01", "C02", "C04"])
    rep.extra["rule"] = "pointer programs (scalar target, struct target, array of pointers, pointer followed by other members) x pointer width 8..64 x endian x mode x reader"
    rep.extra["explanation"] = (
        "T1: Pointer._read/_write delegate to the configured pointer type (width, byte order, unsigned value preserved), dereference "
        "reads the target type at the absolute offset with position restored and the result cached, null / stream-less pointers raise "
        "NullPointerDereference, arithmetic yields the same class on the same stream; T2: compiled construction path == interpreted, "
        "pointer fields occupy exactly the configured width, dump writes the address back."
    )
    rep.assumptions += T2_ASSUMPTIONS
    return rep
