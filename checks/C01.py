"""C01 - value round trip; out-of-range integers are rejected."""
from __future__ import annotations

from checks.common import Report
from checks.t2util import T2_ASSUMPTIONS, T2_RULE, programs_for, run_pipeline
from pyvc.harness import run_cases


def run(tier, seed):
    rep = Report("C01", tier, seed, "proof", "./vf check C01 --tier " + tier)
    from contracts import leaf

    from contracts import lemmas

    from contracts import exprs

    # every type "that can be defined": array classes are built by _make_array (element type identity and size over call
    # histories), array lengths by Expression.evaluate (operator tables, operand order, associativity)
    t1 = run_cases(leaf.specs(("write", "read", "roundtrip", "reject"), tier) + lemmas.specs(tier)
                   + [("contracts.cstructfns", "make_fn", ("make_array_identity",))]
                   + [sp for sp in leaf.array_specs(tier) if sp[1] != "make_array" or sp[2][2] in ("read_array_n", "read_array_eof", "read_0")]
                   + [("contracts.exprs", "make_expr", (w,)) for w in ("tables", "evaluate_exp", "precedence", "rewrite-idempotent")] + exprs.shape_specs(tier))
    rep.add_case_results(t1, "T1")
    progs = programs_for(tier, seed)
    run_pipeline(rep, progs, ["C01"])
    rep.extra["rule"] = T2_RULE
    rep.extra["explanation"] = (
        "T1: every leaf codec's _write emits exactly the spec encoding and rejects values that do not fit (OverflowError / "
        "struct.error / ValueError), _read inverts it; T2: for every program, v = parse(D) (all values obtainable by parsing), "
        "parse(dumps(v) ++ R) == v and consumes len(dumps(v)), for both readers"
    )
    rep.assumptions += T2_ASSUMPTIONS + [
        "values 'constructed directly' are covered through the leaf contracts (domain = values that fit) and through values obtained by parsing; "
        "constructor plumbing is C17",
    ]
    return rep
