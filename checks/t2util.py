"""Helpers shared by the checks that run per-definition (T2) pipelines."""
from __future__ import annotations

from checks.common import layout_signature
from pyvc.harness import run_cases
from t2 import sets
from t2.cases import UNROLL


def programs_for(tier, seed, pred=None, extra=(), full=False):
    if tier == "quick":
        ps = sets.quick_programs(seed) if full else sets.reduced_programs(seed)
    else:
        ps = sets.thorough_programs(seed)
    if pred is not None:
        ps = [p for p in ps if pred(p)]
    ps = sets.dedupe(list(ps) + list(extra))
    return ps


def prove_summaries(rep, tier="quick"):
    """The per-definition runs use BitBuffer.read/write/flush/reset and LEB128._read/_write through their contracts:
    discharge those contracts against the real method bodies in the same run (a change inside one of these callees is
    visible only here)."""
    if getattr(rep, "_summaries_proved", False):
        return
    rep._summaries_proved = True
    from contracts import bitbuffer

    specs = bitbuffer.t1_specs(tier) + [("contracts.leaf", "make_leb", (sg, op)) for sg in (False, True) for op in ("read", "write")]
    rep.add_case_results(run_cases(specs), "T1")


def run_pipeline(rep, progs, props, modes=(False, True)):
    prove_summaries(rep, rep.tier)
    specs = [("t2.cases", "make_pipe", (p.to_json(), c, list(props))) for p in progs for c in modes]
    res = run_cases(specs)
    rep.add_case_results(res, "T2")
    rep.programs += len(progs)
    for p in progs:
        try:
            rep.program_sigs.add(layout_signature(p, p.load(False).T))
        except Exception:  # noqa: BLE001
            pass
    for p in progs[:2]:
        rep.samples.append({"program": p.key(), "definition": p.text.split("\n")[-1]})
    return res


T2_RULE = (
    "programs = family F (t2/family.py, t2/sets.py): every field kind alone, every ordered pair of the quick alphabet (expensive "
    "kinds only with cheap partners), seeded sequences of 3-4 kinds; x endian {<,>} x {packed, aligned} x {interpreted, compiled}; "
    "distinct = distinct layout signature"
)
T2_ASSUMPTIONS = [
    "the quantifier over definitions is covered by the enumerated family F only (a bound over programs; data, positions and input "
    "length are symbolic and unbounded)",
    f"data-dependent loops without a loop invariant (null-terminated arrays, [EOF] arrays of non-packed elements, LEB128 bytes, "
    f"expression-sized arrays of non-packed elements) are unrolled to {UNROLL} data-dependent iterations in these runs; the unbounded "
    "statements about those loops are the T1 contracts on the leaf functions",
    "floats are compared by bit pattern (NaN payloads treated as ordinary values), UTF-16 text by code units",
    "BitBuffer.read/write/flush are used through their contracts (contracts/bitbuffer.py); the contracts are proved of the real "
    "method bodies by the T1 cases of C06",
]
