#!/bin/bash
# Build the overlay venv (Python 3.12 + z3/cvc5/hypothesis/jsonschema) offline. Idempotent.
set -e
cd "$(dirname "$0")"
V=.venv
if [ -x $V/bin/python ] && $V/bin/python -c "import z3, jsonschema, hypothesis, dissect.cstruct" 2>/dev/null; then
  exit 0
fi
rm -rf $V
/venv/bin/python -m venv $V >/dev/null
PIP_NO_INDEX=1 $V/bin/pip install -q --no-index --find-links /opt/veriftools/wheels z3-solver cvc5 hypothesis jsonschema >/dev/null 2>&1
SP=$($V/bin/python -c "import sysconfig; print(sysconfig.get_paths()['purelib'])")
echo "import site; site.addsitedir('/venv/lib/python3.12/site-packages')" > "$SP/zz_repo_overlay.pth"
$V/bin/python -c "import z3, jsonschema, hypothesis, dissect.cstruct, sys; assert dissect.cstruct.__file__.startswith('/repo/'), dissect.cstruct.__file__"
