"""Observable signature of a cstruct object: names, layout and parsing behaviour of its user-defined types."""
from __future__ import annotations

import re


def type_sig(t, depth=0):
    from dissect.cstruct.types import BaseArray, Enum, Flag, Pointer, Structure

    name = re.sub(r"__anonymous_\d+__", "__anonymous__", getattr(t, "__name__", str(t)))
    if depth > 6:
        return name
    if isinstance(t, str):
        return ("alias", t)
    if issubclass(t, (Enum, Flag)):
        return ("enum", name, t.type.__name__, tuple((k, int(v.value)) for k, v in t.__members__.items()))
    if issubclass(t, Pointer):
        return ("ptr", type_sig(t.type, depth + 1) if not issubclass(t.type, Structure) else t.type.__name__, t.size)
    if issubclass(t, BaseArray):
        n = t.num_entries
        return ("array", type_sig(t.type, depth + 1), n if isinstance(n, int) or n is None else str(n), t.null_terminated, t.size)
    if issubclass(t, Structure):
        return ("struct", name, type(t).__name__, t.size, t.alignment, bool(getattr(t, "__align__", False)),
                tuple((re.sub(r"__anonymous_\d+__", "__anonymous__", f._name), type_sig(f.type, depth + 1), f.bits, f.offset) for f in t.__fields__))
    return ("scalar", name, t.size, t.alignment)


def cs_sig(cs, sample=None):
    from dissect.cstruct import cstruct
    from dissect.cstruct.types import Structure

    base = cstruct()
    out = {}
    for name, t in cs.typedefs.items():
        if name in base.typedefs:
            continue
        rt = cs.resolve(name) if isinstance(t, str) else t
        sig = [type_sig(rt)]
        if isinstance(t, str):
            sig.append(("alias-of", t if t in base.typedefs else "user"))
        if sample is not None:
            try:
                v = rt(sample)
                sig.append(("parse", repr_value(v)))
                try:
                    sig.append(("dump", rt.dumps(v).hex()))
                except Exception as e:  # noqa: BLE001
                    sig.append(("dump-raises", type(e).__name__))
            except Exception as e:  # noqa: BLE001
                sig.append(("parse-raises", type(e).__name__))
        out[re.sub(r"__anonymous_\d+__", "__anonymous__", name)] = tuple(sig)
    consts = {k: (repr(v) if not hasattr(v, "value") else int(v.value)) for k, v in cs.consts.items() if k not in base.consts}
    return {"types": out, "consts": consts}


def repr_value(v, depth=0):
    import enum

    from dissect.cstruct.types import Pointer, Structure

    if depth > 6:
        return "..."
    if type(v).__name__ == "UnionProxy":
        v = object.__getattribute__(v, "__target__")
    if type(v).__name__ == "SStr" and v.raw.concrete() is not None:
        return ("str", v.raw.concrete().decode("utf-16-le" if v.endian == "le" else "utf-16-be", "surrogatepass"))
    if type(v).__name__ == "SBytes" and v.concrete() is not None:
        return ("bytes", v.concrete())  # engine value with concrete content (input went through the BytesIO model)
    if isinstance(v, Structure):
        return tuple((n, repr_value(getattr(v, n), depth + 1)) for n in type(v).fields)
    if isinstance(v, enum.Enum):
        return ("enum", type(v).__name__, int(v.value))
    if isinstance(v, Pointer):
        return ("ptr", int(v))
    if isinstance(v, list):
        return tuple(repr_value(x, depth + 1) for x in v)
    if isinstance(v, float):
        import struct

        return ("f", struct.pack("<d", v).hex())
    if isinstance(v, (bytes, str, int)):
        return ("bytes" if isinstance(v, bytes) else "str" if isinstance(v, str) else "int", v if not isinstance(v, int) else int(v))
    return repr(v)
