"""Systematic single-preemption schedules at source-line granularity (replay side of C15).

Thread A runs task_a with a trace function; at the k-th line event inside one of the traced functions it is
suspended, thread B runs task_b to completion, then A resumes. Every k is tried. Results are compared with the
sequential results."""
from __future__ import annotations

import sys
import threading


def count_events(task, codes):
    n = [0]

    def tracer(frame, event, arg):
        if id(frame.f_code) in codes:
            if event == "line":
                n[0] += 1
            return tracer
        return tracer if event == "call" else None

    sys.settrace(tracer)
    try:
        task()
    finally:
        sys.settrace(None)
    return n[0]


def run_with_preemption(task_a, task_b, codes, k, timeout=20):
    """Returns (result_a, result_b); results are ('ok', value) or ('raise', repr)."""
    res = {}
    at_point = threading.Event()
    resume = threading.Event()

    def wrap(name, task):
        try:
            res[name] = ("ok", task())
        except Exception as e:  # noqa: BLE001
            res[name] = ("raise", f"{type(e).__name__}: {e}")

    def thread_a():
        n = [0]

        def tracer(frame, event, arg):
            if id(frame.f_code) in codes:
                if event == "line":
                    n[0] += 1
                    if n[0] == k:
                        at_point.set()
                        resume.wait(timeout)
                return tracer
            return tracer if event == "call" else None

        sys.settrace(tracer)
        try:
            wrap("a", task_a)
        finally:
            sys.settrace(None)
            at_point.set()

    ta = threading.Thread(target=thread_a)
    ta.start()
    at_point.wait(timeout)
    tb = threading.Thread(target=wrap, args=("b", task_b))
    tb.start()
    tb.join(timeout)
    resume.set()
    ta.join(timeout)
    return res.get("a"), res.get("b")
