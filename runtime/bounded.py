"""Bounded stand-ins (T3): executable contracts driven by enumeration. Never counted as proved."""
from __future__ import annotations

import json


class Bounded:
    def __init__(self, name, bound):
        self.name, self.bound = name, bound
        self.evaluations = 0
        self.distinct = set()
        self.failures = []
        self.samples = []

    def case(self, key, ok, observed=None, inputs=None, info=None):
        self.evaluations += 1
        try:
            self.distinct.add(key if isinstance(key, (str, int, tuple)) else json.dumps(key, default=str))
        except TypeError:
            self.distinct.add(str(key))
        if len(self.samples) < 3:
            self.samples.append(inputs if inputs is not None else key)
        if not ok and len(self.failures) < 60:
            self.failures.append({"id": str(key)[:120], "inputs": inputs if inputs is not None else key, "observed": observed, "info": info})
        return ok

    def add_to(self, rep):
        rep.add_bounded(self.name, self.evaluations, len(self.distinct), self.bound, self.failures, self.samples)
