"""T1 contracts for types/pointer.py."""
from __future__ import annotations

import z3

from pyvc.ctx import PyRaise
from pyvc.harness import Case
from pyvc.interp import Interp
from pyvc.models import _norm, deep_eq
from pyvc.stream import SymStream
from pyvc.sym import SBytes, SPtr, Seg, strip, zint


class PtrCase(Case):
    functions = ["dissect/cstruct/types/pointer.py:Pointer._read", "dissect/cstruct/types/pointer.py:Pointer._write",
                 "dissect/cstruct/types/pointer.py:Pointer.dereference", "dissect/cstruct/types/pointer.py:Pointer.__new__",
                 "dissect/cstruct/types/pointer.py:Pointer.__add__"]

    def __init__(self, which, pname, endian):
        self.which, self.pname, self.endian = which, pname, endian
        self.name = f"pointer:{which}[{pname},{endian}]"

    def body(self, ctx):
        from dissect.cstruct import cstruct
        from dissect.cstruct.exceptions import NullPointerDereference
        from dissect.cstruct.types.pointer import Pointer

        cs = cstruct(endian=self.endian, pointer=self.pname)
        cs.load("struct tgt { uint16 a; uint8 b; };", compiled=False)
        n = cs.pointer.size
        it = Interp(ctx, unroll=3)
        D = SBytes.fresh("D")
        p = z3.Int("p")
        ctx.assume(p >= 0)
        ctx.case_inputs.update(D=D, p=p)
        seg = D.items[0]
        L = D.length()
        PT = cs._make_pointer(cs.tgt)
        PC = cs._make_pointer(cs.char)
        if self.which == "read-write":
            s = SymStream(ctx, D, p)
            try:
                v = it.call(PT._read, [s, {"k": 1}])
            except PyRaise as e:
                ctx.prove("raises-only-EOFError-when-short", z3.And(e.cls is EOFError, z3.Not(zint(p) + n <= zint(L))))
                return
            ctx.cover("read")
            ctx.prove("occupies-configured-width", ctx.eq(s.pos, _norm(zint(p) + n)))
            items = [seg.at(_norm(zint(p) + i)) for i in range(n)]
            le = items if self.endian == "<" else list(reversed(items))
            u = z3.IntVal(0)
            for b in reversed(le):
                u = u * 256 + zint(b)
            ctx.prove("value-is-the-unsigned-integer-stored-there", isinstance(v, SPtr) and _norm(zint(v.value) == u))
            ctx.prove("remembers-stream-and-context", isinstance(v, SPtr) and v._stream is s and v._context == {"k": 1} and v.cls is PT)
            out = SymStream(ctx, SBytes([]), 0)
            it.call(PT._write, [out, v])
            ctx.prove("dump-writes-address-back", out.data.eq(SBytes(items)))
        elif self.which == "dereference":
            addr = z3.Int("addr")
            ctx.assume(addr > 0)
            ctx.case_inputs["addr"] = addr
            s = SymStream(ctx, D, p)
            ptr = SPtr(PT, addr, s, None)
            try:
                r = it.call(Pointer.dereference, [ptr])
            except PyRaise as e:
                ctx.prove("refuses-only-a-truncated-target", z3.And(e.cls is EOFError, z3.Not(addr + 3 <= zint(L))))
                ctx.prove("position-restored-or-failed", True)
                return
            ctx.cover("deref")
            a = zint(seg.at(addr)) + 256 * zint(seg.at(addr + 1)) if self.endian == "<" else 256 * zint(seg.at(addr)) + zint(seg.at(addr + 1))
            ctx.prove("reads-target-at-absolute-offset", z3.And(zint(r.a) == a, zint(r.b) == zint(seg.at(addr + 2))))
            ctx.prove("does-not-move-the-stream", ctx.eq(s.pos, p))
            mark = len(s.log)
            r2 = it.call(Pointer.dereference, [ptr])
            ctx.prove("stable-on-repeated-access", r2 is r and len(s.log) == mark)
            # char pointer: NUL-terminated string
            s2 = SymStream(ctx, D, p)
            pc = SPtr(PC, addr, s2, None)
            try:
                sv = it.call(Pointer.dereference, [pc])
                n2 = SBytes.of(sv).length()
                ctx.prove("char*-reads-up-to-NUL", z3.And(*[zint(seg.at(addr + i)) != 0 for i in range(n2)], zint(seg.at(addr + n2)) == 0) if isinstance(n2, int) else False)
                ctx.prove("char*-does-not-move-the-stream", ctx.eq(s2.pos, p))
            except PyRaise as e:
                ctx.prove("char*-refuses-only-unterminated", e.cls is EOFError)
            # modular: a char pointer dereference IS the target type's null-terminated reader applied at the address
            # (Char._read_0 replaced by a recording summary: whatever it returns must be returned, unmodified, for every length)
            from dissect.cstruct.types.char import Char

            calls = []
            token = object()

            def rec(interp, cls, stream, context=None):
                calls.append((cls, stream, stream.pos, context))
                stream.pos = _norm(zint(stream.pos) + 5)  # the callee moves the stream
                return token

            it2 = Interp(ctx, summaries={Char._read_0.__func__: rec})
            s3 = SymStream(ctx, D, p)
            pc2 = SPtr(PC, addr, s3, {"k": 2})
            r3 = it2.call(Pointer.dereference, [pc2])
            ctx.prove("char*-delegates-to-the-null-terminated-reader-at-the-address",
                      r3 is token and len(calls) == 1 and calls[0][0] is cs.char and calls[0][1] is s3 and ctx.eq(calls[0][2], addr) is True and calls[0][3] == {"k": 2})
            ctx.prove("char*-restores-the-position-after-the-callee-moved-it", ctx.eq(s3.pos, p))
            r4 = it2.call(Pointer.dereference, [pc2])
            ctx.prove("char*-cached-on-repeated-access", r4 is token and len(calls) == 1)
        elif self.which == "null":
            s = SymStream(ctx, D, p)
            for nm, ptr in (("null", SPtr(PT, 0, s, None)), ("no-stream", SPtr(PT, z3.Int("addr"), None, None))):
                try:
                    it.call(Pointer.dereference, [ptr])
                    ctx.prove(f"{nm}/raises-NullPointerDereference", False)
                except PyRaise as e:
                    ctx.prove(f"{nm}/raises-NullPointerDereference", e.cls is NullPointerDereference, info=e.cls.__name__)
            ctx.prove("stream-untouched", len(s.log) == 0 and ctx.eq(s.pos, p))
            d = it.call(PT.__default__, [])
            ctx.prove("default-is-null-without-stream", strip(d) == 0 and getattr(d, "_stream", 1) is None)
        elif self.which == "arithmetic":
            a, k = z3.Int("a"), z3.Int("k")
            ctx.assume(z3.And(a >= 0, k >= 1))
            s = SymStream(ctx, D, p)
            ptr = SPtr(PT, a, s, {"c": 2})
            for nm, fn, exp in (("__add__", Pointer.__add__, a + k), ("__sub__", Pointer.__sub__, a - k), ("__mul__", Pointer.__mul__, a * k)):
                r = it.call(fn, [ptr, k])
                ctx.prove(f"{nm}/same-class-same-stream", isinstance(r, SPtr) and r.cls is PT and r._stream is s and r._context == {"c": 2})
                ctx.prove(f"{nm}/integer-result", isinstance(r, SPtr) and _norm(zint(r.value) == exp))
            for nm in ("__floordiv__", "__mod__", "__and__", "__or__", "__xor__", "__lshift__", "__rshift__", "__pow__"):
                r = it.call(getattr(Pointer, nm), [SPtr(PT, 44, s, None), 3])
                exp = getattr(int, nm)(44, 3)
                ctx.prove(f"{nm}/same-class-same-stream-int-result", getattr(r, "_stream", None) is s and int(r) == exp and type(r) is PT if not isinstance(r, SPtr) else (r._stream is s and r.value == exp))
        ctx.cover("done")


def make_ptr(which, pname, endian):
    return PtrCase(which, pname, endian)
