"""T1 contract of StructureMetaType._calculate_size_and_offsets and UnionMetaType._calculate_size_and_offsets.

The field list is symbolic: the loop is cut at its head, the loop state is havocked to an arbitrary state
satisfying the invariant, ONE arbitrary field is processed by the real loop body, and the resulting state is
compared with the reference step written from the C rules (C04) and the bit-field unit rules (C06). The tail
(structure padding) is compared with the reference on the exit path. By induction over the field list the
function computes the reference layout for every list of fields.

Shapes (None-ness of offsets, bit-field or not, storage type relation, alignments in {1,2,4,8,16}) are enumerated;
all integers (offsets, sizes, bit widths) are symbolic.
"""
from __future__ import annotations

import itertools

import z3

from pyvc.ctx import Infeasible, PyRaise
from pyvc.fakes import FakeField, FakeType
from pyvc.harness import Case
from pyvc.interp import Interp
from pyvc.models import _norm
from pyvc.sym import is_z3, zint

ALIGNS = (1, 2, 4, 8, 16)
KINDS = ("plain-fixed", "plain-dynamic", "bits-first", "bits-same-type", "bits-other-type")


def roundup_ok(r, x, a):
    """r is the least multiple of a that is >= x"""
    return z3.And(zint(r) >= zint(x), zint(r) < zint(x) + a, zint(r) % a == 0)


class StepLoop:
    def __init__(self, case):
        self.c = case

    def establish(self, it, frame, tag):
        L = frame.locals
        ok = L["offset"] == 0 and L["alignment"] == 0 and L["bits_type"] is None and L["bits_field_offset"] == 0 and L["bits_remaining"] == 0
        it.ctx.prove(tag + "/initial-state", bool(ok))

    def havoc(self, it, frame, g0):
        c, ctx, L = self.c, it.ctx, frame.locals
        st = {}
        # --- arbitrary loop state satisfying the invariant
        st["alignment"] = c.a_state
        if c.offset_known:
            off = z3.Int("offset")
            ctx.assume(off >= 0)
            st["offset"] = off
        else:
            st["offset"] = None
        in_unit = c.kind in ("bits-same-type", "bits-other-type") or c.state_in_unit
        if in_unit:
            usize = z3.Int("unit_size")
            ctx.assume(z3.And(usize >= 1, usize <= 16))
            if c.kind == "bits-same-type":
                # validity of the storage type (precondition, checked for every built-in type by the type-table obligation
                # "size is a multiple of alignment"): the field's type IS the unit type
                ctx.assume(usize % c.a_field == 0)
            ut = c.unit_type = FakeType("unit_type", usize)
            st["bits_type"] = ut
            rem = z3.Int("bits_remaining")
            ctx.assume(z3.And(rem >= 0, rem <= usize * 8))
            st["bits_remaining"] = rem
            if c.offset_known:
                bfo = z3.Int("bits_field_offset")
                ctx.assume(z3.And(bfo >= 0, st["offset"] == bfo + usize))  # invariant: the unit was the last thing placed
                if c.align and c.kind == "bits-same-type":
                    ctx.assume(bfo % c.a_field == 0)  # invariant: in aligned mode a unit starts at a multiple of its type's alignment
                st["bits_field_offset"] = bfo
            else:
                st["bits_field_offset"] = None
        else:
            c.unit_type = None
            st["bits_type"] = None
            st["bits_remaining"] = 0
            st["bits_field_offset"] = 0
        if c.a_state == 0:
            # no field seen yet
            if not (c.offset_known and not in_unit):
                raise Infeasible()
            ctx.assume(st["offset"] == 0)
        for k, v in st.items():
            L[k] = v
        c.pre = dict(st)
        return st

    def for_guard(self, it, frame, g):
        c, ctx = self.c, it.ctx
        if c.phase == "exit":
            return False
        # --- one arbitrary field
        fsize = None
        if c.kind == "plain-dynamic":
            ftype = FakeType("dyn", None)
        elif c.kind == "bits-same-type":
            ftype = c.unit_type
            fsize = ftype.size
        else:
            fsize = z3.Int("field_size")
            ctx.assume(z3.And(fsize >= 0, fsize <= 4096) if c.kind == "plain-fixed" else z3.And(fsize >= 1, fsize <= 16))
            ftype = FakeType("ftype", fsize)
        bits = None
        if c.kind.startswith("bits"):
            bits = z3.Int("bits")
            ctx.assume(bits >= 1)
        preset = None
        if c.preset:
            preset = z3.Int("preset_offset")
            ctx.assume(preset >= 0)
        c.field = FakeField("f", ftype, bits, preset, c.a_field)
        c.fsize = fsize
        frame.locals["field"] = c.field
        return True

    def at_exit(self, it, frame, g):
        pass

    def at_break(self, it, frame, g):
        pass

    def preserve(self, it, frame, g, tag):
        """Compare the real body's effect with the reference step."""
        c, ctx, L = self.c, it.ctx, frame.locals
        S, f = c.pre, c.field
        align = c.align
        # reference: where does this member start
        start = f_preset = c.preset_value = (f.offset if c.preset else None)
        # note: f.offset may have been overwritten by the body; the preset value is the symbol we created
        preset = z3.Int("preset_offset") if c.preset else None
        start = preset if preset is not None else S["offset"]
        goals = []

        def placed(result_start):
            """result_start is the reference start: start rounded up when aligned"""
            if start is None:
                return result_start is None
            if result_start is None:
                return False
            if align:
                return roundup_ok(result_start, start, c.a_field)
            return zint(result_start) == zint(start)

        exp_align = max(c.a_state, c.a_field)
        goals.append(("alignment==max", L["alignment"] == exp_align))
        if not c.kind.startswith("bits"):
            got_start = f.offset
            goals.append(("member-offset-follows-C-rule", placed(got_start)))
            goals.append(("bit-state-reset", L["bits_type"] is None and _is0(L["bits_remaining"]) and _is0(L["bits_field_offset"])))
            if start is None:
                goals.append(("offset-stays-unknown", L["offset"] is None))
            elif c.kind == "plain-dynamic":
                goals.append(("offset-unknown-after-dynamic-member", L["offset"] is None))
            else:
                goals.append(("next-offset==start+size", (L["offset"] is not None) and (got_start is not None) and zint(L["offset"]) == zint(got_start) + zint(c.fsize)))
        else:
            ut = c.unit_type
            bits = z3.Int("bits")
            same = c.kind == "bits-same-type"
            rem0 = S["bits_remaining"]
            usz = ut.size if ut is not None else None
            # explicit placement beyond the current unit (add_field(offset=...)) also opens a new unit
            moved = False
            if same and preset is not None and S["bits_field_offset"] is not None:
                moved = zint(preset) > zint(S["bits_field_offset"]) + zint(usz)
            if same:
                new_unit = z3.Or(zint(rem0) == 0, moved) if moved is not False else (zint(rem0) == 0)
            else:
                new_unit = True
            fs = c.fsize
            W = zint(fs) * 8
            # (a) new unit: placed like a member of the storage type
            nu = [
                ("unit-offset-follows-C-rule", placed(L["bits_field_offset"])),
                ("first-field-records-unit-offset", _same(f.offset, L["bits_field_offset"])),
                ("unit-type", L["bits_type"] is f.type),
                ("remaining==width-bits", zint(L["bits_remaining"]) == W - bits),
                ("next-offset==unit+size", (L["offset"] is None and start is None) or (L["offset"] is not None and L["bits_field_offset"] is not None and zint(L["offset"]) == zint(L["bits_field_offset"]) + zint(fs))),
            ]
            # (b) same unit: nothing moves, only the remaining bits shrink
            su = [
                ("shares-unit", L["bits_type"] is ut and _same(L["bits_field_offset"], S["bits_field_offset"])),
                ("remaining-=bits", zint(L["bits_remaining"]) == zint(rem0) - bits),
                # (with an explicit offset the running offset follows the explicit value: outside the C rules, not constrained)
                ("offset-unchanged", _same(L["offset"], S["offset"]) if preset is None else True),
                ("offset-not-recorded-again", _same(f.offset, preset)),
            ]
            if new_unit is True:
                goals += nu
            else:
                for (n1, g1) in nu:
                    goals.append((n1 + "|new-unit", _implies(new_unit, g1)))
                for (n2, g2) in su:
                    goals.append((n2 + "|same-unit", _implies(z3.Not(new_unit), g2)))
            goals.append(("no-straddle-accepted", zint(L["bits_remaining"]) >= 0))
        for n, gl in goals:
            ctx.prove(f"step/{n}", gl if not isinstance(gl, bool) else gl)
        ctx.cover("step")


def _is0(v):
    return isinstance(v, int) and v == 0


def _same(a, b):
    if a is None or b is None:
        return a is b
    return _norm(zint(a) == zint(b))


def _implies(c, g):
    if isinstance(g, bool):
        return z3.Implies(c, z3.BoolVal(g))
    return z3.Implies(c, g)


class LayoutStep(Case):
    timeout_ms = 20000
    functions = ["dissect/cstruct/types/structure.py:StructureMetaType._calculate_size_and_offsets"]

    def __init__(self, kind, offset_known, preset, align, a_field, a_state, state_in_unit, phase="step"):
        self.kind, self.offset_known, self.preset, self.align = kind, offset_known, preset, align
        self.a_field, self.a_state, self.state_in_unit, self.phase = a_field, a_state, state_in_unit, phase
        self.name = (f"layout:{phase}[{kind},offset={'known' if offset_known else 'dynamic'},preset={'yes' if preset else 'no'},"
                     f"{'aligned' if align else 'packed'},a_field={a_field},a_state={a_state},in_unit={state_in_unit}]")

    def body(self, ctx):
        from dissect.cstruct.types.structure import StructureMetaType

        loop = StepLoop(self)
        it = Interp(ctx, loopspecs={("StructureMetaType._calculate_size_and_offsets", 0): loop})
        fields = [None]
        try:
            r = it.call(StructureMetaType._calculate_size_and_offsets, [StructureMetaType, fields, self.align])
        except PyRaise as e:
            # the only legitimate refusal: a bit-field that does not fit the rest of its unit
            if self.phase == "step" and self.kind.startswith("bits") and e.cls is ValueError:
                bits = z3.Int("bits")
                S = self.pre
                if self.kind == "bits-same-type":
                    # refused => it really would straddle: bits > remaining of the (old or fresh) unit
                    usz = self.unit_type.size
                    ctx.prove("step/straddle-refusal-justified", z3.Or(bits > zint(S["bits_remaining"]), bits > zint(usz) * 8))
                else:
                    ctx.prove("step/straddle-refusal-justified", bits > zint(self.fsize) * 8)
                ctx.cover("refused")
                return
            ctx.prove("no-unexpected-exception", False, info=f"raised {e.cls.__name__}: {e.msg}")
            return
        # exit path: structure size and alignment
        S = self.pre
        size, alignment = r
        ctx.prove("exit/alignment", alignment == S["alignment"])
        if S["offset"] is None:
            ctx.prove("exit/size-unknown-iff-dynamic", size is None)
        elif self.align:
            a = S["alignment"]
            if a == 0:
                ctx.prove("exit/empty-structure-size-0", _norm(zint(size) == 0))
            else:
                ctx.prove("exit/tail-padding-least-multiple", roundup_ok(size, S["offset"], a))
        else:
            ctx.prove("exit/packed-size==end", _norm(zint(size) == zint(S["offset"])))
        ctx.cover("exit")


def make_step(*a):
    return LayoutStep(*a)


class UnionLayout(Case):
    """UnionMetaType._calculate_size_and_offsets on k members with symbolic sizes (k <= 3 unrolled: the loop body is a
    max-accumulation; the per-iteration step is checked on an arbitrary state as well)."""

    functions = ["dissect/cstruct/types/structure.py:UnionMetaType._calculate_size_and_offsets"]

    def __init__(self, k, align, dyn_at):
        self.k, self.align, self.dyn_at = k, align, dyn_at
        self.name = f"layout:union[k={k},{'aligned' if align else 'packed'},dynamic_member={dyn_at}]"

    def body(self, ctx):
        from dissect.cstruct.types.structure import UnionMetaType

        it = Interp(ctx)
        fields = []
        sizes = []
        aligns = []
        for i in range(self.k):
            a = z3.Int(f"a{i}")
            ctx.assume(z3.Or(*[a == x for x in ALIGNS]))
            if self.dyn_at == i:
                t = FakeType(f"t{i}", None)
                sizes.append(None)
            else:
                s = z3.Int(f"s{i}")
                ctx.assume(s >= 0)
                t = FakeType(f"t{i}", s)
                sizes.append(s)
            aligns.append(a)
            fields.append(FakeField(f"m{i}", t, None, None, a))
        if self.align:
            # concretise alignments (5^k cases, exact)
            from pyvc.models import concretise

            aligns = [concretise(it, a, 1, 16) for a in aligns]
            for f, a in zip(fields, aligns):
                f.alignment = a
        size, alignment = it.call(UnionMetaType._calculate_size_and_offsets, [UnionMetaType, fields, self.align])
        # alignment == max member alignment
        if self.k == 0:
            ctx.prove("union/empty", alignment == 0 and _is0(size))
            return
        ctx.prove("union/alignment-is-max", z3.And(*[zint(alignment) >= zint(a) for a in aligns], z3.Or(*[zint(alignment) == zint(a) for a in aligns])))
        if any(s is None for s in sizes):
            ctx.prove("union/dynamic-member-makes-size-unknown", size is None)
        else:
            mx = z3.And(*[zint(size) >= s for s in sizes])
            if self.align:
                A = alignment if isinstance(alignment, int) else None
                if A is None:
                    ctx.prove("union/alignment-concrete", False)
                    return
                m = z3.Int("maxsize")
                ctx.assume(z3.And(*[m >= s for s in sizes], z3.Or(*[m == s for s in sizes])))
                ctx.prove("union/size-is-max-rounded-up", roundup_ok(size, m, A))
            else:
                ctx.prove("union/size-is-max", z3.And(mx, z3.Or(*[zint(size) == s for s in sizes])))
        ctx.cover("union")


def make_union(*a):
    return UnionLayout(*a)


def specs(tier="quick"):
    out = []
    for kind in KINDS:
        for offset_known in (True, False):
            for preset in (False, True):
                for align in (False, True):
                    afs = ALIGNS if align else (1, 4)
                    ass = (0, 1, 2, 4, 8, 16) if align else (0, 2, 8)
                    for a_f in afs:
                        for a_s in ass:
                            in_unit_opts = (False, True) if kind in ("plain-fixed", "plain-dynamic", "bits-first") and kind != "bits-first" else (False,)
                            if kind == "bits-first":
                                in_unit_opts = (False,)
                            for iu in in_unit_opts:
                                if a_s == 0 and (iu or kind in ("bits-same-type", "bits-other-type") or not offset_known):
                                    continue
                                if kind == "bits-same-type" and a_s < a_f:
                                    continue  # invariant: the structure alignment already includes the open unit's type
                                if kind == "bits-same-type" and preset and not offset_known:
                                    # explicitly placed bit-field continuing a unit whose own offset is unknown: outside the contract
                                    continue
                                out.append(("contracts.layout", "make_step", (kind, offset_known, preset, align, a_f, a_s, iu, "step")))
    # exit paths
    for offset_known in (True, False):
        for align in (False, True):
            for a_s in (0, 1, 2, 4, 8, 16):
                for iu in (False, True):
                    if a_s == 0 and (iu or not offset_known):
                        continue
                    out.append(("contracts.layout", "make_step", ("plain-fixed", offset_known, False, align, 1, a_s, iu, "exit")))
    for k in (0, 1, 2, 3):
        for align in (False, True):
            for d in [None] + list(range(k)):
                out.append(("contracts.layout", "make_union", (k, align, d)))
    return out
