"""Summaries used by the per-definition (T2) runs in place of interpreting a function body."""
from __future__ import annotations

import z3

from pyvc.sym import zint


def t2_summaries():
    from contracts import bitbuffer

    return dict(bitbuffer.t2_summaries())


def canonical_leb_summaries():
    """C02 is stated for canonical inputs (minimal LEB128). This wrapper interprets the real LEB128._read and
    then *assumes* that the bytes it consumed were the minimal encoding (C02's explicit precondition)."""
    from dissect.cstruct.types.leb128 import LEB128

    real = LEB128._read.__func__

    def leb_read(interp, cls, stream, context=None):
        mark = len(stream.log)
        v = interp.call_nosummary(real, [cls, stream, context])
        reads = [e for e in stream.log[mark:] if e[0] == "read"]
        bs = []
        for e in reads:
            # each read delivered exactly one byte on a returning path
            bs.append(stream.data.byte_at(e[1]))
        if len(bs) >= 2:
            last, prev = zint(bs[-1]), zint(bs[-2])
            ctx = interp.ctx
            if cls.signed:
                prev_sign = (prev / 64) % 2  # bit 6 of the previous byte
                ctx.assume(z3.Not(z3.Or(z3.And(last == 0, prev_sign == 0), z3.And(last == 0x7F, prev_sign == 1))))
            else:
                ctx.assume(last != 0)
        return v

    return {real: leb_read}
