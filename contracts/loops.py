"""Summaries used by the per-definition (T2) runs in place of interpreting a function body."""
from __future__ import annotations

import z3

from pyvc.sym import zint


def t2_summaries():
    from contracts import bitbuffer

    d = dict(bitbuffer.t2_summaries())
    d.update(leb_summaries())
    return d


def leb_summaries():
    """LEB128._read/_write used through their contracts (proved of the real loops in contracts/leaf.py):
      _write(stream, x)  appends enc(x) (canonical encoding), returns its length, ValueError iff x < 0 and unsigned;
      _read(stream)      on input that starts with enc(v) returns v and consumes len(enc(v)); in general it is a
                         deterministic function of the input from the current position: it either consumes n >= 1 available
                         bytes and returns some v, or raises EOFError (no terminating byte before the end).
    The summary keeps one (eof, v, n) triple per (input buffer, position): both readers of a relational run see the same one."""
    import z3 as _z3

    from dissect.cstruct.types.leb128 import LEB128
    from pyvc.ctx import PyRaise
    from pyvc.models import _norm
    from pyvc.stream import SymStream
    from pyvc.sym import SBytes, Seg, is_z3, strip
    from specs import scalars

    real_read = LEB128._read.__func__
    real_write = LEB128._write.__func__

    def leb_read(interp, cls, stream, context=None):
        ctx = interp.ctx
        if not isinstance(stream, SymStream):
            return interp.call_nosummary(real_read, [cls, stream, context])
        pos = stream.pos
        item = stream.data.item_at(pos)
        if isinstance(item, Seg) and item.tag is not None and item.tag[0] == "leb" and item.tag[2] == bool(cls.signed):
            # the stream holds enc(v) here: contract of _read
            stream.pos = _norm(zint(pos) + zint(item.n))
            stream.log.append(("read", pos, item.n, item.n))
            return item.tag[1]
        items = stream.data.items
        if not (len(items) == 1 and isinstance(items[0], Seg) and items[0].fn is not None):
            return interp.call_nosummary(real_read, [cls, stream, context])
        seg = items[0]
        g = ctx.ghost.setdefault("leb", {"memo": {}, "src": {}})
        key = (id(seg.fn), _z3.simplify(zint(seg.off) + zint(pos)).sexpr(), bool(cls.signed))
        if key not in g["memo"]:
            i = len(g["memo"])
            g["memo"][key] = (_z3.Bool(f"leb_eof!{i}"), _z3.Int(f"leb_v!{i}"), _z3.Int(f"leb_n!{i}"))
        eof, v, n = g["memo"][key]
        total = stream.total()
        if ctx.branch(eof):
            stream.log.append(("read", pos, 1, 0))
            raise PyRaise(EOFError, None, "EOF reached, while final LEB128 byte was not yet read")
        ctx.assume(_z3.And(n >= 1, zint(pos) + n <= zint(total)))
        if not cls.signed:
            ctx.assume(v >= 0)
        if ctx.ghost.get("assume_canonical_leb"):
            # C02's premise (minimal encoding): the consumed bytes are enc(v); in particular the value 0 is the single byte 00
            first = seg.at(_norm(zint(pos)))
            ctx.assume_byte(first)
            ctx.assume(_z3.Implies(v == 0, _z3.And(n == 1, first == 0)))
            ctx.assume(_z3.Implies(n == 1, first == (v if not cls.signed else _z3.If(v >= 0, v, v + 128))))
        g["src"][v.get_id()] = (seg, _norm(zint(pos)), n, bool(cls.signed))
        stream.pos = _norm(zint(pos) + n)
        stream.log.append(("read", pos, n, n))
        return v

    def leb_write(interp, cls, stream, data):
        ctx = interp.ctx
        x = strip(data)
        if not is_z3(x) or not isinstance(stream, SymStream):
            return interp.call_nosummary(real_write, [cls, stream, data])
        if not cls.signed and interp.truth(ctx.lt(x, 0)):
            raise PyRaise(ValueError, None, "Attempt to encode a negative integer using unsigned LEB128 encoding")
        g = ctx.ghost.setdefault("leb", {"memo": {}, "src": {}})
        src = g["src"].get(x.get_id())
        if src is not None and ctx.ghost.get("assume_canonical_leb") and src[3] == bool(cls.signed):
            # C02's premise: the bytes this value was read from were its canonical encoding, i.e. enc(x)
            seg, pos, n, _ = src
            w = seg.window(pos, n)
            w.tag = ("leb", x, bool(cls.signed))  # these bytes are enc(x) (premise), a re-read returns x
            stream.write(SBytes([w]))
            return n
        enc = (scalars.enc_s if cls.signed else scalars.enc_u)(x)
        n = _z3.Length(enc)
        ctx.assume(n >= 1)
        stream.write(SBytes([Seg(enc, n, tag=("leb", x, bool(cls.signed)))]))
        return n

    return {real_read: leb_read, real_write: leb_write}


def canonical_leb_summaries_old():
    """C02 is stated for canonical inputs (minimal LEB128). This wrapper interprets the real LEB128._read and
    then *assumes* that the bytes it consumed were the minimal encoding (C02's explicit precondition)."""
    from dissect.cstruct.types.leb128 import LEB128

    real = LEB128._read.__func__

    def leb_read(interp, cls, stream, context=None):
        mark = len(stream.log)
        v = interp.call_nosummary(real, [cls, stream, context])
        reads = [e for e in stream.log[mark:] if e[0] == "read"]
        bs = []
        for e in reads:
            # each read delivered exactly one byte on a returning path
            bs.append(stream.data.byte_at(e[1]))
        if len(bs) >= 2:
            last, prev = zint(bs[-1]), zint(bs[-2])
            ctx = interp.ctx
            if cls.signed:
                prev_sign = (prev / 64) % 2  # bit 6 of the previous byte
                ctx.assume(z3.Not(z3.Or(z3.And(last == 0, prev_sign == 0), z3.And(last == 0x7F, prev_sign == 1))))
            else:
                ctx.assume(last != 0)
        return v

    return {real: leb_read}


def canonical_leb_summaries():
    """C02 is stated for canonical inputs (minimal LEB128): under that premise the bytes a LEB128 value was read from are
    enc(value); the write summary then emits exactly those bytes (flag read by leb_write)."""
    return {}
