def t2_summaries():
    return {}
