"""BitBuffer contracts.

(1) T2 summaries: in per-definition runs BitBuffer.read/write/flush are replaced by their contracts
    (spec_bits slices of the storage unit), with a structural normal form so that "write back the
    slices of a unit" is recognised as "the unit's bytes, masked" without bit arithmetic.
(2) T1 cases: the real method bodies are proved against the same contracts for every
    (unit width, bits remaining, field width, byte order) with the unit contents symbolic (bit-vector mode).
"""
from __future__ import annotations

import z3

from pyvc.ctx import PyRaise
from pyvc.harness import Case
from pyvc.interp import Interp
from pyvc.models import _norm, dec_int, enc_int
from pyvc.stream import SymStream
from pyvc.sym import SBytes, SEnum, STyped, Unsupported, is_z3, strip, zint


# ------------------------------------------------------------------------------------------------
# spec: bit slice of a unit (C06): little endian counts from the least significant bit, big endian from the most


def spec_lo(W, consumed, bits, endian):
    return consumed if endian == "<" else W - consumed - bits


# ------------------------------------------------------------------------------------------------
# T2 summaries


def _g(ctx):
    return ctx.ghost.setdefault("bb", {"memo": {}, "slice_of": {}, "masked": {}})


def _key(items):
    return tuple(i.get_id() if is_z3(i) else ("c", i) for i in items)


def _unit_bytes_le(ctx, val, size, endian):
    """Little-endian list of the byte terms a unit value was decoded from (None if not known)."""
    if isinstance(val, SBytes):
        n = val.length()
        if not isinstance(n, int) or n != size:
            return None
        items = [val.byte_at(i) for i in range(n)]
        return items if endian == "<" else list(reversed(items))
    v = strip(val)
    if is_z3(v):
        hit = ctx.ghost.get("codec", {}).get("dec", {}).get((v.get_id(), size))
        if hit is not None:
            return list(hit[0])
        return None
    if isinstance(v, int):
        return list((v % (1 << (8 * size))).to_bytes(size, "little"))
    return None


def _resolve(ctx, le):
    """Map masked bytes back to their source bytes: returns (source_le, masks_le)."""
    g = _g(ctx)
    src, masks = [], []
    for b in le:
        if is_z3(b) and b.get_id() in g["masked"]:
            o, m = g["masked"][b.get_id()]
            src.append(o)
            masks.append(m)
        else:
            src.append(b)
            masks.append(0xFF)
    return src, masks


def _slice_term(ctx, le, lo, bits):
    """Canonical term for bits [lo, lo+bits) of the unsigned unit value of little-endian bytes `le`."""
    g = _g(ctx)
    src, masks = _resolve(ctx, le)
    covered = all((masks[pos // 8] >> (pos % 8)) & 1 for pos in range(lo, lo + bits))
    use = src if covered else le
    key = (_key(use), lo, bits)
    if key in g["memo"]:
        return g["memo"][key]
    k0, k1 = lo // 8, (lo + bits - 1) // 8
    part = 0
    for k in range(k0, k1 + 1):
        part = part + zint(use[k]) * (1 << (8 * (k - k0))) if is_z3(use[k]) or is_z3(part) else part + use[k] * (1 << (8 * (k - k0)))
    sh = lo - 8 * k0
    if is_z3(part):
        t = part
        if sh:
            t = t / z3.IntVal(1 << sh)
        if sh + bits < 8 * (k1 - k0 + 1):
            t = t % z3.IntVal(1 << bits)
        t = _norm(t)
    else:
        t = (part >> sh) & ((1 << bits) - 1)
    g["memo"][key] = t
    if is_z3(t) and covered:
        g["slice_of"][t.get_id()] = (_key(src), src, lo, bits)
    return t


def t2_summaries():
    from dissect.cstruct.bitbuffer import BitBuffer

    def bb_read(interp, self, field_type, bits):
        ctx = interp.ctx
        if self._remaining == 0 or self._type != field_type:
            if field_type.size is None:
                raise PyRaise(ValueError, None, "Reading variable-length fields is unsupported")
            self._type = field_type
            self._remaining = field_type.size * 8
            self._buffer = interp.call(field_type._read, [self.stream])
            if isinstance(self._buffer, SBytes):
                # char storage: the real code decodes the bytes with the buffer's own byte order
                self._unit = _unit_bytes_le(ctx, self._buffer, field_type.size, "<" if self.endian == "<" else ">")
            else:
                self._unit = _unit_bytes_le(ctx, self._buffer, field_type.size, "<" if _order(interp, self, field_type) == "little" else ">")
        if getattr(self, "_unit", None) is None:
            raise Unsupported("bit-field unit without known byte decomposition")
        if bits > self._remaining:
            raise PyRaise(ValueError, None, "Reading straddled bits is unsupported")
        W = self._type.size * 8
        consumed = W - self._remaining
        lo = spec_lo(W, consumed, bits, "<" if self.endian == "<" else ">")
        v = _slice_term(ctx, self._unit, lo, bits)
        self._remaining -= bits
        return v

    def bb_write(interp, self, field_type, data, bits):
        if self._remaining == 0 or self._type != field_type:
            if self._type:
                interp.call(BitBuffer.flush, [self])
            if field_type.size is None:
                raise PyRaise(ValueError, None, "Writing variable-length fields is unsupported")
            self._remaining = field_type.size * 8
            self._type = field_type
            self._pieces = []
        if self._type is None or self._type.size is None:
            raise PyRaise(ValueError, None, "Invalid state")
        W = self._type.size * 8
        if self.endian == "<":
            lo = W - self._remaining
        else:
            lo = self._remaining - bits
        if not hasattr(self, "_pieces") or self._pieces is None:
            self._pieces = []
        self._pieces.append((lo, bits, strip(data)))
        self._remaining -= bits
        if self._remaining == 0:
            interp.call(BitBuffer.flush, [self])

    def bb_flush(interp, self):
        ctx = interp.ctx
        if self._type is not None:
            size = self._type.size
            W = size * 8
            pieces = getattr(self, "_pieces", None) or []
            g = _g(ctx)
            out_le = None
            infos = []
            for lo, bits, d in pieces:
                inf = g["slice_of"].get(d.get_id()) if is_z3(d) else None
                infos.append(inf)
            # structural case: every piece is the slice of one source unit at the position it is written to
            if pieces and all(i is not None for i in infos):
                k0 = infos[0][0]
                if all(i[0] == k0 and len(i[1]) == size and i[2] == lo and i[3] == bits for i, (lo, bits, _) in zip(infos, pieces)):
                    src = infos[0][1]
                    mask = 0
                    for lo, bits, _ in pieces:
                        mask |= ((1 << bits) - 1) << lo
                    out_le = []
                    from pyvc import sym as _s

                    for k in range(size):
                        mk = (mask >> (8 * k)) & 0xFF
                        if mk == 0xFF:
                            out_le.append(src[k])
                        elif mk == 0:
                            out_le.append(0)
                        else:
                            t = _norm(_s.and_const(src[k], mk))
                            if is_z3(t):
                                g["masked"][t.get_id()] = (src[k], mk)
                            out_le.append(t)
            if out_le is None:
                total = 0
                for lo, bits, d in pieces:
                    # write() has no range check: the contract requires 0 <= data < 2^bits for the slice reading
                    if is_z3(d):
                        if not ctx.valid(z3.And(zint(d) >= 0, zint(d) < (1 << bits))):
                            raise Unsupported("bit-field value not provably within its width")
                        total = total + zint(d) * (1 << lo)
                    else:
                        if not 0 <= d < (1 << bits):
                            raise Unsupported("bit-field value outside its width")
                        total = total + d * (1 << lo)
                out_le = enc_int(_norm(total), size, "little")
            order = _flush_order(interp, self)
            out = out_le if order == "little" else list(reversed(out_le))
            # ghost: output offsets that hold only unassigned bits of a unit (written as zero)
            pos0 = self.stream.tell() if hasattr(self.stream, "tell") else None
            if pos0 is not None:
                for k, b in enumerate(out):
                    if isinstance(b, int) and b == 0:
                        g.setdefault("slack", []).append((getattr(self.stream, "name", None), _norm(zint(pos0) + k)))
            self.stream.write(SBytes(out))
        self._type = None
        self._remaining = 0
        self._buffer = 0
        self._pieces = []
        self._unit = None

    def bb_reset(interp, self):
        self._type = None
        self._buffer = 0
        self._remaining = 0
        self._pieces = []
        self._unit = None

    return {BitBuffer.read: bb_read, BitBuffer.write: bb_write, BitBuffer.flush: bb_flush, BitBuffer.reset: bb_reset}


def _order(interp, self, field_type):
    """Byte order in which field_type._read decoded the unit: the type's own cs.endian at call time."""
    from dissect.cstruct.utils import ENDIANNESS_MAP

    return ENDIANNESS_MAP[field_type.cs.endian]


def _flush_order(interp, self):
    """Byte order in which flush writes the unit (its contract, proved of the real body by the T1 cases below)."""
    import sys

    return sys.byteorder if self.endian in ("@", "=") else ("little" if self.endian == "<" else "big")


# ------------------------------------------------------------------------------------------------
# T1: the real BitBuffer.read / write / flush / reset bodies against the contract


def _bv_spec_slice(U, W, lo, bits, N):
    """bits [lo, lo+bits) of the unsigned W-bit unit, as an N-bit vector"""
    return z3.ZeroExt(N - bits, z3.Extract(lo + bits - 1, lo, U))


class BBCase(Case):
    """One (unit width W, byte order) configuration; inside, every (bits consumed, field width) pair is checked with
    the unit contents symbolic (bit-vector mode, N = W + 8 bits: no operation can overflow, see bounds below)."""

    timeout_ms = 30000
    budget_s = 600
    functions = ["dissect/cstruct/bitbuffer.py:BitBuffer.read", "dissect/cstruct/bitbuffer.py:BitBuffer.write",
                 "dissect/cstruct/bitbuffer.py:BitBuffer.flush", "dissect/cstruct/bitbuffer.py:BitBuffer.reset"]

    def __init__(self, W, endian, op, signed):
        self.W, self.endian, self.op, self.signed = W, endian, op, signed
        self.name = f"bitbuffer:{op}[W={W},{endian},{'signed' if signed else 'unsigned'}-storage]"

    def body(self, ctx):
        from dissect.cstruct.bitbuffer import BitBuffer
        from pyvc.fakes import FakeType

        W, N = self.W, self.W + 8
        it = Interp(ctx)
        e = self.endian
        size = W // 8
        if self.op == "read":
            U = z3.BitVec("U", N)  # python value of the unit as returned by the storage type (sign-extended)
            lim = 1 << (W - 1) if self.signed else 1 << W
            ctx.assume(z3.And(U >= (-lim if self.signed else 0), U < lim))
            ctx.case_inputs["U"] = U
            Uw = z3.Extract(W - 1, 0, U)  # the unit's W bits
            ft = FakeType("unit", size, reader=lambda stream: U)
            other = FakeType("other", size)
            for c in range(0, W + 1):
                for bits in range(1, W - c + 1):
                    bb = BitBuffer(object(), e)
                    # representation invariant after c bits were consumed
                    if c == 0:
                        bb._type, bb._remaining, bb._buffer = (other if (bits % 2) else None), 0 if (bits % 3) else 5, 0
                    else:
                        bb._type, bb._remaining = ft, W - c
                        bb._buffer = z3.simplify(U >> c) if e == "<" else U
                    v = it.call(BitBuffer.read, [bb, ft, bits])
                    lo = spec_lo(W, c, bits, "<" if e == "<" else ">")
                    ctx.prove(f"read/c={c},bits={bits}/value==spec_bits", v == _bv_spec_slice(Uw, W, lo, bits, N))
                    ctx.prove(f"read/c={c},bits={bits}/state", z3.And(
                        bb._remaining == W - c - bits, bb._type is ft,
                        (bb._buffer == (U >> (c + bits))) if e == "<" else (bb._buffer == U)))
                # straddle: a field wider than what is left is refused
                if 0 < c < W:
                    bb = BitBuffer(object(), e)
                    bb._type, bb._remaining, bb._buffer = ft, W - c, (z3.simplify(U >> c) if e == "<" else U)
                    try:
                        it.call(BitBuffer.read, [bb, ft, W - c + 1])
                        ctx.prove(f"read/c={c}/straddle-refused", False, info="returned a value")
                    except PyRaise as ex:
                        ctx.prove(f"read/c={c}/straddle-refused", ex.cls is ValueError, info=ex.cls.__name__)
            ctx.cover("read")
        elif self.op == "write":
            ft = FakeType("unit", size)
            for c in range(0, W):
                for bits in range(1, W - c + 1):
                    P = z3.BitVec(f"P_{c}_{bits}", N)
                    data = z3.BitVec(f"data_{c}_{bits}", N)
                    lo = spec_lo(W, c, bits, "<" if e == "<" else ">")
                    # invariant of the pending unit: only bits of already written fields may be set
                    filled_mask = ((1 << c) - 1) if e == "<" else (((1 << c) - 1) << (W - c))
                    pre = z3.And(P & z3.BitVecVal(~filled_mask & ((1 << N) - 1), N) == 0, z3.ULT(data, z3.BitVecVal(1 << bits, N)))
                    out = SymStream(ctx, SBytes([]), 0, name="out")
                    bb = BitBuffer(out, e)
                    if c == 0:
                        bb._type, bb._remaining, bb._buffer = None, 0, 0
                        Pv = z3.BitVecVal(0, N)
                    else:
                        bb._type, bb._remaining, bb._buffer = ft, W - c, P
                        Pv = P
                    ctx.assume(pre)
                    try:
                        it.call(BitBuffer.write, [bb, ft, data, bits])
                    except PyRaise as ex:
                        ctx.prove(f"write/c={c},bits={bits}/accepts-fitting-value", False, info=f"raised {ex.cls.__name__}")
                        continue
                    newP = Pv | (data << lo)
                    if c + bits == W:
                        # unit complete: flushed exactly once, in the unit's byte order, state reset
                        exp = [z3.BV2Int(z3.Extract(8 * i + 7, 8 * i, newP)) for i in range(size)]
                        exp = exp if e == "<" else list(reversed(exp))
                        got = out.data.items
                        ok = len(got) == size and z3.And(*[zint(g) == x for g, x in zip(got, exp)])
                        ctx.prove(f"write/c={c},bits={bits}/flushes-unit-bytes", z3.Implies(pre, ok) if ok is not False else False)
                        ctx.prove(f"write/c={c},bits={bits}/state-reset", bb._type is None and bb._remaining == 0 and isinstance(bb._buffer, int) and bb._buffer == 0)
                    else:
                        ctx.prove(f"write/c={c},bits={bits}/slice-placed", z3.Implies(pre, bb._buffer == newP))
                        ctx.prove(f"write/c={c},bits={bits}/state", bb._remaining == W - c - bits and bb._type is ft and len(out.data.items) == 0)
            ctx.cover("write")
        elif self.op == "flush":
            P = z3.BitVec("P", N)
            ctx.assume(z3.And(P >= 0, z3.ULT(P, z3.BitVecVal(1 << W, N))))
            ft = FakeType("unit", size)
            out = SymStream(ctx, SBytes([]), 0, name="out")
            bb = BitBuffer(out, e)
            bb._type, bb._remaining, bb._buffer = ft, 3 if W > 3 else 1, P
            it.call(BitBuffer.flush, [bb])
            exp = [z3.BV2Int(z3.Extract(8 * i + 7, 8 * i, P)) for i in range(size)]
            exp = exp if e == "<" else list(reversed(exp))
            got = out.data.items
            ctx.prove("flush/writes-unit-once-in-unit-byte-order", len(got) == size and z3.And(*[zint(g) == x for g, x in zip(got, exp)]))
            ctx.prove("flush/state-reset", bb._type is None and bb._remaining == 0 and isinstance(bb._buffer, int) and bb._buffer == 0)
            bb2 = BitBuffer(out, e)
            it.call(BitBuffer.flush, [bb2])
            ctx.prove("flush/no-pending-unit-writes-nothing", len(out.data.items) == size)
            bb3 = BitBuffer(out, e)
            bb3._type, bb3._remaining, bb3._buffer = ft, 2, P
            it.call(BitBuffer.reset, [bb3])
            ctx.prove("reset/discards", bb3._type is None and bb3._remaining == 0 and isinstance(bb3._buffer, int) and bb3._buffer == 0 and len(out.data.items) == size)
            ctx.cover("flush")

    def concretise(self, model, obligation):
        import re

        from pyvc.harness import model_value

        out = {"op": self.op}
        m = re.search(r"c=(\d+),bits=(\d+)", obligation.name)
        if m:
            out["c"], out["bits"] = int(m.group(1)), int(m.group(2))
        for d in model.decls():
            out[d.name()] = model_value(model, d())
        return out

    def native(self, inputs):
        """Replay on the real BitBuffer with a native stand-in storage type."""
        from dissect.cstruct.bitbuffer import BitBuffer

        W, e = self.W, self.endian
        if self.op != "read" or "c" not in inputs or "U" not in inputs:
            return None
        U, c, bits = inputs["U"], inputs["c"], inputs["bits"]

        class T:
            size = W // 8

            @staticmethod
            def _read(stream):
                return U

        bb = BitBuffer(None, e)
        if c:
            bb._type, bb._remaining, bb._buffer = T, W - c, (U >> c) if e == "<" else U
        try:
            v = bb.read(T, bits)
        except Exception as ex:  # noqa: BLE001
            return {"reproduced": True, "observed": f"raises {type(ex).__name__}: {ex}"}
        lo = spec_lo(W, c, bits, "<" if e == "<" else ">")
        want = ((U % (1 << W)) >> lo) & ((1 << bits) - 1)
        return {"reproduced": v != want, "observed": f"unit {U:#x} width {W} consumed {c} bits {bits}: read {v} expected {want}"}


def make_bb(W, endian, op, signed):
    return BBCase(W, endian, op, signed)


def t1_specs(tier="quick"):
    widths = [8, 16, 24, 32] if tier == "quick" else [8, 16, 24, 32, 48, 64]
    out = []
    for W in widths:
        for e in ("<", ">"):
            out.append(("contracts.bitbuffer", "make_bb", (W, e, "read", False)))
            out.append(("contracts.bitbuffer", "make_bb", (W, e, "read", True)))
            out.append(("contracts.bitbuffer", "make_bb", (W, e, "write", False)))
            out.append(("contracts.bitbuffer", "make_bb", (W, e, "flush", False)))
    return out


class BBWeak(Case):
    """C08: BitBuffer.read under the weak stream contract with a real storage type: it returns only if the whole unit
    was delivered; a short delivery raises EOFError; a stream fault propagates."""

    functions = ["dissect/cstruct/bitbuffer.py:BitBuffer.read"]

    def __init__(self, tname, endian):
        self.tname, self.endian = tname, endian
        self.name = f"bitbuffer:weak-stream[{tname},{endian}]"

    def body(self, ctx):
        from dissect.cstruct import cstruct
        from dissect.cstruct.bitbuffer import BitBuffer
        from pyvc.stream import WeakStream

        cs = cstruct(endian=self.endian)
        cs.load("enum E : uint16 { A = 1 }; enum E24 : int24 { B = 1 };", compiled=False)
        T = getattr(cs, self.tname)
        T = getattr(T, "type", T) if hasattr(T, "__members__") else T  # the bit reader is handed the storage type of an enum
        n = T.size
        s = WeakStream(ctx)
        it = Interp(ctx)
        bb = BitBuffer(s, self.endian)
        try:
            it.call(BitBuffer.read, [bb, T, 3])
        except PyRaise as e:
            if any(x[2] for x in s.log):
                ctx.prove("stream-fault-propagates", e.cls is OSError, info=e.cls.__name__)
            else:
                ctx.prove("short-delivery-raises-EOFError", e.cls is EOFError, info=e.cls.__name__)
            ctx.cover("refused")
            return
        ctx.cover("returns")
        ctx.prove("no-fault-swallowed", not any(x[2] for x in s.log))
        ctx.prove("unit-fully-delivered", z3.And(*[zint(x[1]) == zint(x[0]) for x in s.log]) if s.log else False)
        ctx.prove("reads-exactly-the-unit", _norm(sum((zint(x[0]) for x in s.log), z3.IntVal(0)) == n))


    def native(self, inputs):
        """The weak-stream obligations are about deliveries, not data: search the (few) short deliveries natively."""
        import io

        from dissect.cstruct import cstruct
        from dissect.cstruct.bitbuffer import BitBuffer

        cs = cstruct(endian=self.endian)
        cs.load("enum E : uint16 { A = 1 }; enum E24 : int24 { B = 1 };", compiled=False)
        T = getattr(cs, self.tname)
        T = getattr(T, "type", T) if hasattr(T, "__members__") else T
        n = T.size

        class Short(io.BytesIO):
            def __init__(self, data, first):
                super().__init__(data)
                self.first = first

            def read(self, k=-1):
                if self.first is not None:
                    k, self.first = min(k, self.first), None
                return super().read(k)

        for k in range(n):
            for avail in (k, n + 4):
                s = Short(bytes(range(1, avail + 1)), k)
                try:
                    v = BitBuffer(s, self.endian).read(T, 3)
                except EOFError:
                    continue
                except Exception as e:  # noqa: BLE001
                    return {"reproduced": True, "observed": f"{k} of {n} unit bytes delivered: raises {type(e).__name__} instead of EOFError"}
                return {"reproduced": True, "observed": f"{k} of {n} unit bytes delivered ({avail} available): read returned {v!r} instead of raising EOFError"}
        return {"reproduced": False, "observed": "no short delivery accepted natively"}


def make_bbweak(tname, endian):
    return BBWeak(tname, endian)


def weak_specs():
    return [("contracts.bitbuffer", "make_bbweak", (t, e)) for t in ("uint8", "uint16", "int32", "uint64", "uint24", "int24", "int48", "uint128", "char", "E", "E24") for e in ("<", ">")]
