"""T1 contracts for compiler.py helpers (C03)."""
from __future__ import annotations

import z3

from pyvc.ctx import PyRaise
from pyvc.harness import Case
from pyvc.interp import Interp


class Fallback(Case):
    """Compiler.compile / StructureMetaType._update_fields let no exception of compile_read escape and keep the
    interpreted reader. compile_read is replaced by a summary that raises an arbitrary exception."""

    functions = ["dissect/cstruct/compiler.py:Compiler.compile", "dissect/cstruct/types/structure.py:StructureMetaType._update_fields"]

    def __init__(self, which):
        self.which = which
        self.name = f"C03fallback[{['compile-raises-TypeError', 'compile-raises-arbitrary', 'update_fields-raises'][which]}]"

    def body(self, ctx):
        from dissect.cstruct import cstruct
        from dissect.cstruct import compiler
        from dissect.cstruct.types.structure import Structure, StructureMetaType

        cs = cstruct()
        cs.load("struct S { uint8 a; uint16 b; };", compiled=False)
        S = cs.S
        before = S.__dict__["_read"] if "_read" in S.__dict__ else None
        exc = [TypeError, KeyError, RuntimeError][self.which] if self.which < 2 else ValueError

        def failing_compile_read(interp, self_, fields, name=None, align=False):
            raise PyRaise(exc, None, "injected generator failure")

        it = Interp(ctx, summaries={compiler.Compiler.compile_read: failing_compile_read})
        if self.which < 2:
            try:
                r = it.call(compiler.Compiler.compile, [compiler.Compiler(cs), S])
            except PyRaise as e:
                ctx.prove("no-exception-escapes", False, info=f"{e.cls.__name__} escaped Compiler.compile")
                return
            ctx.prove("returns-structure", r is S)
            ctx.prove("not-marked-compiled", S.__compiled__ is False)
            ctx.prove("reader-unchanged", ("_read" in S.__dict__) == (before is not None))
        else:
            S.__compiled__ = True
            try:
                d = it.call(StructureMetaType._update_fields, [S, S.__fields__, S.__align__])
            except PyRaise as e:
                ctx.prove("no-exception-escapes", False, info=f"{e.cls.__name__} escaped _update_fields")
                return
            ctx.prove("falls-back-to-interpreted", d.get("__compiled__") is False and d["_read"].__func__ is Structure._read.__func__)
        ctx.cover("reach")


def make_fallback(i):
    return Fallback(i)
