"""T1 contracts for cstruct.py helpers: _make_array, _make_pointer, _make_type, resolve, add_type, sizeof."""
from __future__ import annotations

import z3

from pyvc.ctx import PyRaise
from pyvc.harness import Case
from pyvc.interp import Interp
from pyvc.models import _norm
from pyvc.sym import zint


class CsFn(Case):
    functions = ["dissect/cstruct/cstruct.py:cstruct._make_array", "dissect/cstruct/cstruct.py:cstruct._make_pointer",
                 "dissect/cstruct/cstruct.py:cstruct._make_type", "dissect/cstruct/cstruct.py:cstruct.resolve",
                 "dissect/cstruct/cstruct.py:cstruct.add_type", "dissect/cstruct/expression.py:Expression.evaluate",
                 "dissect/cstruct/types/base.py:MetaType.__len__"]

    def __init__(self, which):
        self.which = which
        self.name = f"cstruct:{which}"

    def body(self, ctx):
        from dissect.cstruct import cstruct
        from dissect.cstruct.exceptions import ResolveError
        from dissect.cstruct.expression import Expression

        cs = cstruct()
        it = Interp(ctx)
        w = self.which
        if w == "make_array":
            # size = n * element size for every element type and every symbolic count; alignment = element alignment
            n = z3.Int("n")
            ctx.assume(n >= 0)
            for tn in ("uint8", "int16", "uint24", "uint32", "int48", "uint64", "int128", "char", "wchar", "float"):
                t = getattr(cs, tn)
                a = it.call(cstruct._make_array, [cs, t, n])
                ctx.prove(f"{tn}[n]/size==n*elem", _norm(zint(a.size) == n * t.size))
                ctx.prove(f"{tn}[n]/alignment==elem", a.alignment == t.alignment)
                ctx.prove(f"{tn}[n]/flags", a.type is t and a.null_terminated is False and a.dynamic is False)
                z = it.call(cstruct._make_array, [cs, t, None])
                ctx.prove(f"{tn}[]/null-terminated-dynamic", z.null_terminated is True and z.size is None and z.dynamic is True and z.alignment == t.alignment)
                e = it.call(cstruct._make_array, [cs, t, Expression(cs, "x + 1")])
                ctx.prove(f"{tn}[expr]/dynamic", e.size is None and e.dynamic is True and e.null_terminated is False)
            d = it.call(cstruct._make_array, [cs, cs.uleb128, 3])
            ctx.prove("dynamic-element/size-unknown", d.size is None and d.dynamic is True)
            two = it.call(cstruct._make_array, [cs, it.call(cstruct._make_array, [cs, cs.uint16, 3]), 2])
            ctx.prove("nested/size", two.size == 12 and two.type.num_entries == 3 and two.num_entries == 2)
        elif w == "make_array_identity":
            # the element type is the *argument* (identity), whatever was built before: two distinct types that share
            # their name and size (nested definitions with the same local name) get their own array classes
            e1 = cs._make_int_type("entry", 4, False)
            e2 = cs._make_int_type("entry", 4, True)
            for cnt in (2, None):
                a1 = it.call(cstruct._make_array, [cs, e1, cnt])
                a2 = it.call(cstruct._make_array, [cs, e2, cnt])
                a1b = it.call(cstruct._make_array, [cs, e1, cnt])
                ctx.prove(f"same-name-elements[{cnt}]/type-is-argument", a1.type is e1 and a2.type is e2 and a1b.type is e1)
            # the array class describes the element type as it is at the call: an element structure that grew since an earlier
            # request gives a bigger array
            from dissect.cstruct.types.structure import Field

            S = cs._make_struct("grow", [Field("a", cs.uint8), Field("b", cs.uint8)])
            g1 = it.call(cstruct._make_array, [cs, S, 2])
            ctx.prove("growing-element/before", g1.size == 4 and g1.type is S)
            S.add_field("c", cs.uint16)
            g2 = it.call(cstruct._make_array, [cs, S, 2])
            ctx.prove("growing-element/size-follows-the-element-type", g2.size == 2 * len(S) == 8 and g2.type is S, info=f"size {g2.size} for 2 x {len(S)}")
        elif w == "make_pointer":
            for pn in ("uint8", "uint16", "uint32", "uint64"):
                c2 = cstruct(pointer=pn)
                pt = it.call(cstruct._make_pointer, [c2, c2.uint8])
                base = c2.typedefs[pn]
                ctx.prove(f"{pn}/width-from-configuration", pt.size == base.size and pt.alignment == base.alignment and pt.type is c2.uint8 and pt.cs is c2)
            # the width follows the configuration current at the call, also when it changes on one cstruct object
            c3 = cstruct()
            for pn in ("uint16", "uint64", "uint8", "uint32", "uint16"):
                c3.pointer = getattr(c3, pn)
                for target in (c3.uint32, c3.char, c3.uint8):
                    pt = it.call(cstruct._make_pointer, [c3, target])
                    ctx.prove(f"reconfigured-{pn}/{target.__name__}*/width-from-current-configuration",
                              pt.size == c3.pointer.size and pt.alignment == c3.pointer.alignment and pt.type is target)
        elif w == "make_type":
            s = z3.Int("s")
            ctx.assume(s >= 1)
            t = it.call(cstruct._make_type, [cs, "t", (object,), s], {"alignment": None})
            ctx.prove("alignment-defaults-to-size", t.alignment is s or _norm(zint(t.alignment) == s) is True)
            ctx.prove("bound-to-cs", t.cs is cs and t.dynamic is False)
            t0 = it.call(cstruct._make_type, [cs, "d", (object,), None])
            ctx.prove("dynamic-iff-size-none", t0.dynamic is True and t0.size is None)
        elif w == "sizeof":
            cs.load("struct S { uint8 a; uint32 b; }; struct A { uint8 a; uint32 b; uint16 c[3]; };", align=False)
            for name in ("uint8", "int24", "uint64", "S", "A", "wchar"):
                v = it.call(Expression.evaluate, [Expression(cs, f"sizeof({name})")])
                ctx.prove(f"sizeof({name})==len", v == len(cs.resolve(name)))
            v = it.call(Expression.evaluate, [Expression(cs, "sizeof(S) * 2 + 1")])
            ctx.prove("sizeof-inside-expression", v == 11)
            # sizeof speaks about the type of *this* cstruct object under its configuration, whatever was asked before elsewhere
            for kw, text in (({"align": True}, "struct S { uint8 a; uint32 b; }; struct A { uint8 a; uint32 b; uint16 c[3]; };"),
                             ({"align": False}, "struct S { uint64 q; uint8 r; }; struct A { S s[2]; };")):
                c2 = cstruct()
                c2.load(text, **kw)
                for name in ("S", "A"):
                    v2 = it.call(Expression.evaluate, [Expression(c2, f"sizeof({name})")])
                    ctx.prove(f"other-object-{kw}/sizeof({name})==len", v2 == len(c2.resolve(name)), info=f"{v2} vs {len(c2.resolve(name))}")
            c3 = cstruct(pointer="uint16")
            c3.load("struct S { uint8 *p; uint8 t; };")
            ctx.prove("other-pointer-width/sizeof(S)==len", it.call(Expression.evaluate, [Expression(c3, "sizeof(S)")]) == len(c3.S) == 3)
            try:
                it.call(Expression.evaluate, [Expression(cs, "sizeof(uleb128)")])
                ctx.prove("sizeof-dynamic-refused", False)
            except PyRaise as e:
                ctx.prove("sizeof-dynamic-refused", e.cls is TypeError)
        elif w == "resolve":
            # alias chains of every length: returns the first non-string, refuses unknown / cyclic / too long chains
            for k in range(0, 13):
                c2 = cstruct()
                names = [f"n{i}" for i in range(k + 1)]
                for i in range(k):
                    c2.typedefs[names[i]] = names[i + 1]
                c2.typedefs[names[k]] = c2.uint16
                try:
                    r = it.call(cstruct.resolve, [c2, names[0]])
                    ctx.prove(f"chain{k}/resolves-to-end-of-chain", r is c2.uint16 and k <= 9, info=f"k={k}")
                except PyRaise as e:
                    ctx.prove(f"chain{k}/only-overlong-chains-refused", e.cls is ResolveError and k >= 10, info=f"k={k} {e.cls.__name__}")
                # dangling
                c3 = cstruct()
                for i in range(k):
                    c3.typedefs[names[i]] = names[i + 1]
                try:
                    it.call(cstruct.resolve, [c3, names[0]])
                    ctx.prove(f"dangling{k}/refused", False)
                except PyRaise as e:
                    ctx.prove(f"dangling{k}/refused", e.cls is ResolveError)
            c4 = cstruct()
            c4.typedefs["a"] = "b"
            c4.typedefs["b"] = "a"
            c4.typedefs["s"] = "s"
            for nm in ("a", "s"):
                try:
                    it.call(cstruct.resolve, [c4, nm])
                    ctx.prove(f"cycle-{nm}/refused", False)
                except PyRaise as e:
                    ctx.prove(f"cycle-{nm}/refused", e.cls is ResolveError)
            ctx.prove("non-string-returned-as-is", it.call(cstruct.resolve, [c4, c4.uint8]) is c4.uint8)
            before = dict(c4.typedefs)
            try:
                it.call(cstruct.resolve, [c4, "uint32"])
            except PyRaise:
                pass
            ctx.prove("resolve-assigns-nothing", c4.typedefs == before)
        elif w == "add_type":
            c5 = cstruct()
            it.call(cstruct.add_type, [c5, "mine", c5.uint16])
            ctx.prove("new-name-added", c5.typedefs["mine"] is c5.uint16)
            it.call(cstruct.add_type, [c5, "mine", "uint16"])
            ctx.prove("same-target-accepted", c5.typedefs["mine"] == "uint16")
            it.call(cstruct.add_type, [c5, "mine", "WORD"])
            ctx.prove("same-target-through-alias-accepted", c5.resolve("mine") is c5.uint16)
            try:
                it.call(cstruct.add_type, [c5, "mine", c5.uint32])
                ctx.prove("other-target-refused", False)
            except PyRaise as e:
                ctx.prove("other-target-refused", e.cls is ValueError and c5.resolve("mine") is c5.uint16)
            it.call(cstruct.add_type, [c5, "mine", c5.uint32], {"replace": True})
            ctx.prove("replace-overrides", c5.typedefs["mine"] is c5.uint32)
            n = len(c5.typedefs)
            other = {k: v for k, v in c5.typedefs.items() if k != "x9"}
            it.call(cstruct.add_type, [c5, "x9", "int8"])
            ctx.prove("frame-only-that-name-changes", {k: v for k, v in c5.typedefs.items() if k != "x9"} == other and len(c5.typedefs) == n + 1)
        ctx.cover("done")


def make_fn(which):
    return CsFn(which)
