"""Finite literal tables of the library compared exhaustively with their specification ([table] obligations:
decided by evaluation, finite and complete; backend 'syntactic')."""
from __future__ import annotations

import ctypes

from pyvc.harness import Case

# name -> (kind, size, signed, packchar) : the built-in types of cstruct.__init__ (from C05's statement / C's ABI)
BUILTINS = {
    "int8": ("packed", 1, True, "b"), "uint8": ("packed", 1, False, "B"), "int16": ("packed", 2, True, "h"),
    "uint16": ("packed", 2, False, "H"), "int32": ("packed", 4, True, "i"), "uint32": ("packed", 4, False, "I"),
    "int64": ("packed", 8, True, "q"), "uint64": ("packed", 8, False, "Q"), "float16": ("packed", 2, None, "e"),
    "float": ("packed", 4, None, "f"), "double": ("packed", 8, None, "d"), "char": ("char", 1, None, None),
    "wchar": ("wchar", 2, None, None), "int24": ("int", 3, True, None), "uint24": ("int", 3, False, None),
    "int48": ("int", 6, True, None), "uint48": ("int", 6, False, None), "int128": ("int", 16, True, None),
    "uint128": ("int", 16, False, None), "uleb128": ("leb", None, False, None), "ileb128": ("leb", None, True, None),
    "void": ("void", 0, None, None),
}
# documented alignment choices for widths C does not have: next power of two
ALIGN = {**{k: v[1] for k, v in BUILTINS.items() if v[1]}, "int24": 4, "uint24": 4, "int48": 8, "uint48": 8, "int128": 16, "uint128": 16}
CTYPES = {"int8": ctypes.c_int8, "uint8": ctypes.c_uint8, "int16": ctypes.c_int16, "uint16": ctypes.c_uint16, "int32": ctypes.c_int32,
          "uint32": ctypes.c_uint32, "int64": ctypes.c_int64, "uint64": ctypes.c_uint64, "float": ctypes.c_float, "double": ctypes.c_double,
          "char": ctypes.c_char}
ALIASES = {
    "signed char": "int8", "unsigned char": "char", "short": "int16", "signed short": "int16", "unsigned short": "uint16",
    "int": "int32", "signed int": "int32", "unsigned int": "uint32", "long": "int32", "signed long": "int32", "unsigned long": "uint32",
    "long long": "int64", "signed long long": "int64", "unsigned long long": "uint64",
    "BYTE": "uint8", "CHAR": "char", "SHORT": "int16", "WORD": "uint16", "DWORD": "uint32", "LONG": "int32", "LONG32": "int32",
    "LONG64": "int64", "LONGLONG": "int64", "QWORD": "uint64", "OWORD": "uint128", "WCHAR": "wchar", "UCHAR": "uint8", "USHORT": "uint16",
    "ULONG": "uint32", "ULONG64": "uint64", "ULONGLONG": "uint64", "INT": "int32", "INT8": "int8", "INT16": "int16", "INT32": "int32",
    "INT64": "int64", "INT128": "int128", "UINT": "uint32", "UINT8": "uint8", "UINT16": "uint16", "UINT32": "uint32", "UINT64": "uint64",
    "UINT128": "uint128", "__int8": "int8", "__int16": "int16", "__int32": "int32", "__int64": "int64", "__int128": "int128",
    "unsigned __int8": "uint8", "unsigned __int16": "uint16", "unsigned __int32": "uint32", "unsigned __int64": "uint64",
    "unsigned __int128": "uint128", "wchar_t": "wchar", "int8_t": "int8", "int16_t": "int16", "int32_t": "int32", "int64_t": "int64",
    "int128_t": "int128", "uint8_t": "uint8", "uint16_t": "uint16", "uint32_t": "uint32", "uint64_t": "uint64", "uint128_t": "uint128",
    "_BYTE": "uint8", "_WORD": "uint16", "_DWORD": "uint32", "_QWORD": "uint64", "_OWORD": "uint128", "u1": "uint8", "u2": "uint16",
    "u4": "uint32", "u8": "uint64", "u16": "uint128", "__u8": "uint8", "__u16": "uint16", "__u32": "uint32", "__u64": "uint64",
    "uchar": "uint8", "ushort": "uint16", "uint": "uint32", "ulong": "uint32",
}


class TypeTable(Case):
    functions = ["dissect/cstruct/cstruct.py:cstruct.__init__", "dissect/cstruct/cstruct.py:cstruct._make_type",
                 "dissect/cstruct/cstruct.py:cstruct._make_int_type", "dissect/cstruct/cstruct.py:cstruct._make_packed_type"]

    def __init__(self, which):
        self.which = which
        self.name = f"table:{which}"

    def body(self, ctx):
        from dissect.cstruct import cstruct
        from dissect.cstruct.types import LEB128, Char, Int, Packed, Void, Wchar
        from dissect.cstruct.types.wchar import Wchar as W2
        from dissect.cstruct.utils import ENDIANNESS_MAP

        cs = cstruct()
        if self.which == "layout":
            for name, (kind, size, signed, pc) in BUILTINS.items():
                t = cs.typedefs.get(name)
                ctx.prove(f"{name}/defined", isinstance(t, type))
                if not isinstance(t, type):
                    continue
                ctx.prove(f"{name}/size", t.size == size, info=f"{t.size} vs {size}")
                ctx.prove(f"{name}/dynamic-flag", t.dynamic == (size is None))
                a = t.alignment or 1
                ctx.prove(f"{name}/alignment-power-of-two", a >= 1 and a & (a - 1) == 0, info=str(a))
                if size:
                    ctx.prove(f"{name}/alignment", a == ALIGN[name], info=f"{a} vs {ALIGN[name]}")
                    ctx.prove(f"{name}/size-multiple-of-alignment", size % a == 0, info=f"size {size} alignment {a}")
                if name in CTYPES:
                    ctx.prove(f"{name}/C-ABI", (size, a) == (ctypes.sizeof(CTYPES[name]), ctypes.alignment(CTYPES[name])),
                              info=f"ctypes says {(ctypes.sizeof(CTYPES[name]), ctypes.alignment(CTYPES[name]))}")
        elif self.which == "names":
            base = {"packed": Packed, "int": Int, "char": Char, "wchar": Wchar, "leb": LEB128, "void": Void}
            for name, (kind, size, signed, pc) in BUILTINS.items():
                t = cs.typedefs.get(name)
                if not isinstance(t, type):
                    ctx.prove(f"{name}/defined", False)
                    continue
                ctx.prove(f"{name}/class-name-is-its-table-key", t.__name__ == name, info=f"class is named {t.__name__!r}")
                ctx.prove(f"{name}/kind", issubclass(t, base[kind]))
                ctx.prove(f"{name}/bound-to-its-cstruct", t.cs is cs)
                if kind in ("int", "leb"):
                    ctx.prove(f"{name}/signedness", t.signed is signed, info=str(getattr(t, "signed", None)))
                if kind == "packed":
                    ctx.prove(f"{name}/packchar", t.packchar == pc, info=str(t.packchar))
                    ctx.prove(f"{name}/python-base", issubclass(t, float if signed is None else int))
            ctx.prove("no-unknown-builtin", {k for k, v in cs.typedefs.items() if isinstance(v, type)} == set(BUILTINS))
            for al, target in ALIASES.items():
                ctx.prove(f"alias/{al}", cs.typedefs.get(al) == target and cs.resolve(al) is cs.typedefs[target], info=str(cs.typedefs.get(al)))
            ctx.prove("no-unknown-alias", {k for k, v in cs.typedefs.items() if isinstance(v, str)} == set(ALIASES))
        elif self.which == "endianness":
            ctx.prove("ENDIANNESS_MAP", {k: ENDIANNESS_MAP.get(k) for k in ("<", ">", "!", "network")} == {"<": "little", ">": "big", "!": "big", "network": "big"})
            ctx.prove("wchar-encoding-map", {k: W2.__encoding_map__.get(k) for k in ("<", ">", "!")} == {"<": "utf-16-le", ">": "utf-16-be", "!": "utf-16-be"})
            import sys

            ctx.prove("pointer-default", cs.pointer is (cs.uint64 if sys.maxsize > 2**32 else cs.uint32))
            for pn in ("uint8", "uint16", "uint32", "uint64"):
                c2 = cstruct(pointer=pn)
                c2.load("struct P { uint8 *p; };")
                pt = c2.P.fields["p"].type
                ctx.prove(f"pointer/{pn}/size-alignment", (pt.size, pt.alignment) == (c2.typedefs[pn].size, c2.typedefs[pn].alignment))
        ctx.cover("table")


def make_table(which):
    return TypeTable(which)
