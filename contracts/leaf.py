"""T1 contracts of the leaf codecs (Int, Packed, Char, Wchar, LEB128, Void, Pointer, Enum delegation).

Each case = one real function of one built-in type class in one byte order; data, stream contents,
start position and stream length are symbolic. The byte order is changed on the cstruct object
*after* the types were created, so a codec that cached the byte order fails its contract (C05).

Contract shapes (from the property statements):
  _read  (strong stream)  returns  <=> the stream holds size more bytes; result = standard decoding of exactly
                          those bytes in the *current* byte order; position advances by size; otherwise EOFError
  _read  (weak stream)    returns only if every read() delivered exactly what was asked; a stream fault propagates
  _write                  rejects (OverflowError / struct.error / ValueError) exactly the values that do not fit,
                          otherwise appends exactly the standard encoding and returns its length
"""
from __future__ import annotations

import io
import struct

import z3

from pyvc.ctx import PyRaise
from pyvc.harness import Case
from pyvc.interp import Interp
from pyvc.models import _norm, deep_eq, fits
from pyvc.stream import SymStream, WeakStream
from pyvc.sym import SBytes, SEnum, SFloat, SPtr, SStr, Seg, ByteSeq, is_z3, strip, zint
from specs import scalars

ENDIANS = ("<", ">", "!")
INT_TYPES = ["int24", "uint24", "int48", "uint48", "int128", "uint128"]
PACKED_INT = ["int8", "uint8", "int16", "uint16", "int32", "uint32", "int64", "uint64"]
PACKED_FLOAT = ["float16", "float", "double"]
ORDER = {"<": "little", ">": "big", "!": "big"}


def make_cs(endian, pointer=None):
    """Types are created under '<' and the byte order is switched afterwards (call-time lookup, C05)."""
    from dissect.cstruct import cstruct

    cs = cstruct(endian="<" if endian != "<" else ">", pointer=pointer)
    cs.load("enum E16 : uint16 { A = 1, B = 2 }; flag F8 : uint8 { X = 1, Y = 2 }; enum ES : int32 { N = -1 };", compiled=False)
    warm_up(cs)
    cs.endian = endian
    return cs


def warm_up(cs):
    """Use every codec entry point once under the *initial* byte order, natively, so that anything that caches the byte
    order at first use (per type, per format) holds the stale value when the contract run starts."""
    import io as _io

    for name in INT_TYPES + PACKED_INT + PACKED_FLOAT + ["char", "wchar", "uleb128", "ileb128", "E16", "F8", "ES"]:
        t = getattr(cs, name)
        try:
            n = t.size or 2
            one = b"\x01" + bytes(n - 1) if n > 1 else b"\x01"
            buf = one * 3 + bytes(2 * n)
            v = t._read(_io.BytesIO(buf))
            t._read_array(_io.BytesIO(buf), 2)
            t._read_0(_io.BytesIO(buf))
            t._write(_io.BytesIO(), v)
            t._write_array(_io.BytesIO(), [v, v])
            t._write_0(_io.BytesIO(), [v])
            t[2](buf).dumps()
            t[None](buf).dumps()
        except Exception:  # noqa: BLE001 - warm-up only
            pass


def sizeof(tname):
    return {"int8": 1, "uint8": 1, "int16": 2, "uint16": 2, "int32": 4, "uint32": 4, "int64": 8, "uint64": 8, "float16": 2,
            "float": 4, "double": 8, "int24": 3, "uint24": 3, "int48": 6, "uint48": 6, "int128": 16, "uint128": 16, "char": 1,
            "wchar": 2}[tname]


def is_signed(tname):
    return tname.startswith("int")


class LeafCase(Case):
    timeout_ms = 30000

    def __init__(self, tname, endian, op):
        self.tname, self.endian, self.op = tname, endian, op
        self.name = f"leaf:{tname}{endian}.{op}"
        mod = {"int": "types/int.py:Int", "packed": "types/packed.py:Packed", "char": "types/char.py:Char", "wchar": "types/wchar.py:Wchar"}
        k = self.kind()
        self.functions = [f"dissect/cstruct/{mod[k]}._read", f"dissect/cstruct/{mod[k]}._write"]

    def kind(self):
        if self.tname in INT_TYPES:
            return "int"
        if self.tname in PACKED_INT + PACKED_FLOAT:
            return "packed"
        return self.tname

    # ---- specification side (independent formulations)
    def spec_decode_ok(self, ctx, value, byte_items):
        """value is the standard decoding of byte_items (stream order) in the current byte order."""
        n = len(byte_items)
        le = byte_items if ORDER[self.endian] == "little" else list(reversed(byte_items))
        t = self.tname
        if t in PACKED_FLOAT:
            bits = value.bits if isinstance(value, SFloat) else None
            if bits is None:
                return False
            u = z3.IntVal(0)
            for b in reversed(le):
                u = u * 256 + zint(b)
            return _norm(zint(bits) == u)
        if t == "char":
            return deep_eq(None, value, SBytes(byte_items)) if False else SBytes.of(value).eq(SBytes(byte_items))
        if t == "wchar":
            if not isinstance(value, SStr):
                return False
            want = "le" if ORDER[self.endian] == "little" else "be"
            return value.endian == want and value.raw.eq(SBytes(byte_items))
        v = zint(strip(value))
        # Horner form of the unsigned value, then two's complement
        u = z3.IntVal(0)
        for b in reversed(le):
            u = u * 256 + zint(b)
        if is_signed(t):
            u = z3.If(zint(le[-1]) >= 128, u - (1 << (8 * n)), u)
        return _norm(v == u)

    def spec_encode_ok(self, ctx, value, byte_items):
        """byte_items (stream order) are the standard encoding of value: byte i (little-endian index) is the i-th base-256
        digit of the two's complement representation (digit characterisation; the decoder side uses the Horner form)."""
        t = self.tname
        if t in PACKED_FLOAT or t in ("char", "wchar"):
            return self.spec_decode_ok(ctx, value, byte_items)
        n = len(byte_items)
        le = byte_items if ORDER[self.endian] == "little" else list(reversed(byte_items))
        v = zint(strip(value))
        return _norm(z3.And(*[scalars.digit(v, i) == zint(le[i]) for i in range(n)]))

    # ---- bodies
    def body(self, ctx):
        cs = make_cs(self.endian)
        T = getattr(cs, self.tname)
        n = sizeof(self.tname)
        it = Interp(ctx, unroll=3)
        getattr(self, "op_" + self.op)(ctx, it, cs, T, n)

    def op_read(self, ctx, it, cs, T, n):
        D = SBytes.fresh("D")
        p = z3.Int("p")
        ctx.assume(p >= 0)
        ctx.case_inputs.update(D=D, p=p)
        s = SymStream(ctx, D, p)
        L = D.length()
        try:
            v = it.call(T._read, [s])
        except PyRaise as e:
            ctx.cover("eof")
            ctx.prove("raises-only-EOFError", e.cls is EOFError, info=f"raised {e.cls.__name__}")
            ctx.prove("raises-only-when-short", z3.Not(zint(p) + n <= zint(L)), info="EOFError although size bytes were available")
            return
        ctx.cover("returns")
        ctx.prove("returns-only-when-available", zint(p) + n <= zint(L))
        ctx.prove("position-advanced-by-size", ctx.eq(s.pos, _norm(zint(p) + n)))
        seg = D.items[0]
        items = [seg.at(_norm(zint(p) + i)) for i in range(n)]
        ctx.prove("standard-decoding-current-endianness", self.spec_decode_ok(ctx, v, items))
        ctx.prove("stream-data-unchanged", s.data.items[0] is seg and len(s.data.items) == 1)

    def op_weak(self, ctx, it, cs, T, n):
        s = WeakStream(ctx)
        try:
            it.call(T._read, [s])
        except PyRaise as e:
            faults = [x for x in s.log if x[2]]
            if faults:
                ctx.prove("stream-fault-propagates", e.cls is OSError, info=f"raised {e.cls.__name__}")
            else:
                ctx.prove("short-delivery-raises-EOFError", e.cls is EOFError, info=f"raised {e.cls.__name__}")
                ctx.prove("raises-only-when-short", z3.Or(*[zint(x[1]) != zint(x[0]) for x in s.log if not x[2]]))
            ctx.cover("refused")
            return
        ctx.cover("returns")
        ctx.prove("no-fault-swallowed", not any(x[2] for x in s.log))
        ctx.prove("every-read-was-full", z3.And(*[zint(x[1]) == zint(x[0]) for x in s.log]) if s.log else True)
        ctx.prove("reads-exactly-size", _norm(sum((zint(x[0]) for x in s.log), z3.IntVal(0)) == n))

    def sym_value(self, ctx, n):
        t = self.tname
        if t in PACKED_FLOAT:
            b = z3.Int("bits")
            ctx.assume(z3.And(b >= 0, b < (1 << (8 * n))))
            ctx.case_inputs["bits"] = b
            return SFloat(b, 8 * n), None
        if t == "char":
            b = z3.Int("c")
            ctx.assume(z3.And(b >= 0, b <= 255))
            ctx.case_inputs["c"] = b
            return SBytes([b]), None
        if t == "wchar":
            b0, b1 = z3.Int("u0"), z3.Int("u1")
            ctx.assume(z3.And(b0 >= 0, b0 <= 255, b1 >= 0, b1 <= 255))
            ctx.case_inputs.update(u0=b0, u1=b1)
            return SStr(SBytes([b0, b1]), "le" if ORDER[self.endian] == "little" else "be"), None
        x = z3.Int("x")
        ctx.case_inputs["x"] = x
        return x, x

    def op_write(self, ctx, it, cs, T, n):
        v, x = self.sym_value(ctx, n)
        O = SBytes.fresh("O")
        out = SymStream(ctx, O, 0)
        out.pos = out.total()
        oldseg = O.items[0]
        try:
            r = it.call(T._write, [out, v])
        except PyRaise as e:
            ctx.cover("rejects")
            if x is None:
                ctx.prove("never-rejects-domain-value", False, info=f"raised {e.cls.__name__}")
                return
            ctx.prove("rejects-only-values-that-do-not-fit", z3.Not(fits(x, n, is_signed(self.tname))), info=f"raised {e.cls.__name__}")
            ctx.prove("rejection-is-an-error-not-truncation", e.cls in (OverflowError, struct.error), info=e.cls.__name__)
            return
        ctx.cover("writes")
        if x is not None:
            ctx.prove("accepts-only-values-that-fit", fits(x, n, is_signed(self.tname)))
        ctx.prove("returns-size", ctx.eq(strip(r), n))
        items = out.data.items
        ctx.prove("appends-exactly-size-bytes", len(items) == 1 + n and items[0] is oldseg)
        if len(items) == 1 + n:
            ctx.prove("standard-encoding-current-endianness", self.spec_encode_ok(ctx, v, items[1:]))

    def op_roundtrip(self, ctx, it, cs, T, n):
        v, x = self.sym_value(ctx, n)
        if x is not None:
            ctx.assume(fits(x, n, is_signed(self.tname)))
        out = SymStream(ctx, SBytes([]), 0)
        it.call(T._write, [out, v])
        R = SBytes.fresh("R")
        s = SymStream(ctx, out.data.concat(R), 0)
        w = it.call(T._read, [s])
        ctx.cover("reach")
        ctx.prove("read(write(v))==v", deep_eq(it, w, v))
        ctx.prove("consumes-len(dumps(v))", ctx.eq(s.pos, out.data.length()))

    # ---- native replay
    def native(self, inputs):
        from dissect.cstruct import cstruct

        cs = make_cs(self.endian)
        T = getattr(cs, self.tname)
        n = sizeof(self.tname)
        order = ORDER[self.endian]
        obs = {}
        if self.op == "read":
            data = bytes.fromhex(inputs["D"])
            p = inputs["p"]
            s = io.BytesIO(data)
            s.seek(p)
            try:
                v = T._read(s)
            except Exception as e:  # noqa: BLE001
                ok = isinstance(e, EOFError) and len(data) - p < n
                return {"reproduced": not ok, "observed": f"raises {type(e).__name__} with {max(0, len(data) - p)} bytes available"}
            chunk = data[p : p + n]
            exp = scalars.py_decode(self.tname, chunk, order)
            ok = len(chunk) == n and s.tell() == p + n and scalars.py_same(v, exp)
            return {"reproduced": not ok, "observed": f"value {v!r} expected {exp!r} pos {s.tell()}"}
        if self.op in ("write", "roundtrip"):
            if "x" in inputs:
                x = inputs["x"]
            elif "bits" in inputs:
                x = scalars.py_decode(self.tname, inputs["bits"].to_bytes(n, "little"), "little")
            elif "c" in inputs:
                x = bytes([inputs["c"]])
            else:
                x = bytes([inputs["u0"], inputs["u1"]]).decode("utf-16-le" if order == "little" else "utf-16-be", "surrogatepass")
            out = io.BytesIO()
            try:
                r = T._write(out, x)
            except Exception as e:  # noqa: BLE001
                fit = scalars.py_fits(self.tname, x)
                ok = (not fit) and isinstance(e, (OverflowError, struct.error))
                return {"reproduced": not ok, "observed": f"raises {type(e).__name__} for {x!r} (fits={fit})"}
            exp = scalars.py_encode(self.tname, x, order)
            got = out.getvalue()
            ok = got == exp and r == n
            if ok and self.op == "roundtrip":
                back = T._read(io.BytesIO(got + b"\xaa"))
                ok = scalars.py_same(back, x)
                return {"reproduced": not ok, "observed": f"wrote {got.hex()} read back {back!r} for {x!r}"}
            return {"reproduced": not ok, "observed": f"wrote {got.hex()} expected {exp.hex() if exp is not None else None} returned {r}"}
        return None


def make_leaf(tname, endian, op):
    return LeafCase(tname, endian, op)


# ----------------------------------------------------------------------------------------------------
# LEB128: real loops, inductive invariants against the recursive spec (canonical minimal encoding)


class _WriteLoop:
    def __init__(self, enc, x0, signed):
        self.enc, self.x0, self.signed = enc, x0, signed

    def inv(self, it, frame):
        res = SBytes.of(frame.locals["result"])
        data = frame.locals["data"]
        c = self.enc(zint(self.x0)) == z3.Concat(res.seq(), self.enc(zint(data))) if res.items else self.enc(zint(self.x0)) == self.enc(zint(data))
        if not self.signed:
            c = z3.And(c, zint(data) >= 0)
        return c

    def establish(self, it, frame, tag):
        it.ctx.prove(tag + "/invariant-established", self.inv(it, frame))

    def havoc(self, it, frame, g0):
        ctx = it.ctx
        frame.locals["data"] = ctx.fresh_int("data")
        R = z3.Const(ctx.fresh("R"), ByteSeq)
        frame.locals["result"] = SBytes([Seg(R, z3.Length(R))], mutable=True)
        frame.locals.pop("byte", None)
        ctx.assume(self.inv(it, frame), heavy=True)
        ctx.assume(scalars.unfold(self.enc, frame.locals["data"]), heavy=True)

    def at_exit(self, *a):
        pass

    def at_break(self, *a):
        pass

    def preserve(self, it, frame, g, tag):
        it.ctx.prove(tag + "/invariant-preserved", self.inv(it, frame))


class _ReadLoop:
    """Invariant of LEB128._read: with ghost u (the not yet decoded part of v):
       remaining input == enc(u) ++ rest,  v == result + u * 2^shift,  0 <= result < 2^shift,  shift == 7 * k."""

    def __init__(self, enc, v, rest, signed, stream):
        self.enc, self.v, self.rest, self.signed, self.stream = enc, v, rest, signed, stream

    def establish(self, it, frame, tag):
        ctx = it.ctx
        ctx.prove(tag + "/invariant-established", z3.And(zint(frame.locals["result"]) == 0, zint(frame.locals["shift"]) == 0))

    def havoc(self, it, frame, g0):
        ctx = it.ctx
        k = ctx.fresh_int("k")
        u = ctx.fresh_int("u")
        res = ctx.fresh_int("result")
        ctx.assume(k >= 0)
        sh = 7 * k
        P = ctx.pow2(sh)
        frame.locals["result"] = res
        frame.locals["shift"] = _norm(sh)
        frame.locals.pop("b", None)
        ctx.assume(z3.And(res >= 0, res < zint(P)))
        ctx.assume(zint(self.v) == res + u * zint(P))
        if not self.signed:
            ctx.assume(u >= 0)
        # the stream now stands at the start of enc(u) ++ rest (suffix view)
        E = self.enc(u)
        ctx.assume(scalars.unfold(self.enc, u), heavy=True)
        self.stream.data = SBytes([Seg(E, z3.Length(E)), Seg(self.rest, z3.Length(self.rest))])
        self.stream.pos = 0
        ctx.ghost["leb_u"] = u
        ctx.ghost["leb_k"] = k
        return {"u": u, "k": k}

    def at_exit(self, *a):
        pass

    def at_break(self, it, frame, g):
        it.ctx.ghost["leb_break"] = True

    def preserve(self, it, frame, g, tag):
        ctx = it.ctx
        u, k = g["u"], g["k"]
        u2 = u / 128  # floor (divisor positive)
        sh2 = 7 * (k + 1)
        P2 = ctx.pow2(sh2)
        res = frame.locals["result"]
        goal = z3.And(
            zint(frame.locals["shift"]) == sh2,
            zint(res) >= 0,
            zint(res) < zint(P2),
            zint(self.v) == zint(res) + u2 * zint(P2),
            ctx.eq(self.stream.pos, 1),
            u2 >= 0 if not self.signed else True,
        )
        ctx.prove(tag + "/invariant-preserved", goal)
        # remaining input after this iteration is enc(u div 128) ++ rest
        full = self.stream.data.seq()
        ctx.prove(tag + "/suffix-preserved", z3.Extract(full, z3.IntVal(1), z3.Length(full) - 1) == z3.Concat(self.enc(u2), self.rest))


class LebCase(Case):
    timeout_ms = 60000

    def __init__(self, signed, op):
        self.signed, self.op = bool(signed), op
        self.name = f"leaf:{'ileb128' if signed else 'uleb128'}.{op}"
        self.functions = ["dissect/cstruct/types/leb128.py:LEB128._read", "dissect/cstruct/types/leb128.py:LEB128._write"]

    def body(self, ctx):
        cs = make_cs("<")
        T = cs.ileb128 if self.signed else cs.uleb128
        enc = scalars.enc_s if self.signed else scalars.enc_u
        getattr(self, "op_" + self.op)(ctx, cs, T, enc)

    def op_write(self, ctx, cs, T, enc):
        x0 = z3.Int("x0")
        ctx.case_inputs["x"] = x0
        out = SymStream(ctx, SBytes.fresh("O"), 0)
        out.pos = out.total()
        it = Interp(ctx, loopspecs={("LEB128._write", 0): _WriteLoop(enc, x0, self.signed)})
        old = out.data.seq()
        try:
            n = it.call(T._write, [out, x0])
        except PyRaise as e:
            ctx.cover("rejects")
            ctx.prove("rejects-only-negative-in-unsigned-mode", z3.And(x0 < 0, not self.signed) if e.cls is ValueError else False, info=e.cls.__name__)
            return
        ctx.cover("writes")
        ctx.prove("accepts-whole-domain", z3.Or(x0 >= 0, self.signed))
        ctx.prove("appends-canonical-encoding", out.data.seq() == z3.Concat(old, enc(x0)))
        ctx.prove("returns-length", zint(n) == z3.Length(enc(x0)))

    def op_read(self, ctx, cs, T, enc):
        v = z3.Int("v")
        if not self.signed:
            ctx.assume(v >= 0)
        rest = z3.Const("rest", ByteSeq)
        ctx.case_inputs["v"] = v
        E = enc(v)
        s = SymStream(ctx, SBytes([Seg(E, z3.Length(E)), Seg(rest, z3.Length(rest))]), 0)
        it = Interp(ctx, loopspecs={("LEB128._read", 0): _ReadLoop(enc, v, rest, self.signed, s)})
        try:
            r = it.call(T._read, [s])
        except PyRaise as e:
            ctx.prove("never-refuses-a-complete-encoding", False, info=f"raised {e.cls.__name__}")
            return
        ctx.cover("returns")
        ctx.prove("decodes-to-v-with-sign-extension", zint(strip(r)) == v)
        # consumed exactly the encoding: after the last iteration the stream stands 1 byte into enc(u)=[b]
        u = ctx.ghost.get("leb_u")
        ctx.prove("consumes-exactly-the-encoding", z3.And(ctx.eq(s.pos, 1), z3.Length(enc(u)) == 1) if u is not None else False)

    def op_weak(self, ctx, cs, T, enc):
        s = WeakStream(ctx)
        it = Interp(ctx, unroll=3)
        try:
            it.call(T._read, [s])
        except PyRaise as e:
            faults = [x for x in s.log if x[2]]
            if faults:
                ctx.prove("stream-fault-propagates", e.cls is OSError, info=e.cls.__name__)
            else:
                ctx.prove("short-delivery-raises-EOFError", e.cls is EOFError, info=e.cls.__name__)
            ctx.cover("refused")
            return
        ctx.cover("returns")
        ctx.prove("every-read-was-full", z3.And(*[zint(x[1]) == 1 for x in s.log if not x[2]]))
        ctx.prove("no-fault-swallowed", not any(x[2] for x in s.log))

    def native(self, inputs):
        """Replay the model's value; if that one does not fail natively (the failed obligation was about an arbitrary
        loop state, not about the input), search boundary values for a native failure of the same contract."""
        first = self._native_one(inputs)
        if first is None or first.get("reproduced"):
            return first
        cands = [0, 1, 2, 63, 64, 65, 127, 128, 129, 255, 8191, 8192, 16383, 16384, 1 << 20, (1 << 21) - 1, 1 << 35, (1 << 63), (1 << 70) + 5]
        if self.signed:
            cands += [-1, -2, -63, -64, -65, -127, -128, -129, -8192, -8193, -(1 << 20), -(1 << 63) - 1]
        for x in cands:
            r = self._native_one({"x": x, "v": x})
            if r and r.get("reproduced"):
                r["note"] = "the solver's model did not fail natively (obligation about an arbitrary loop state); found by boundary search"
                return r
        return first

    def _native_one(self, inputs):
        cs = make_cs("<")
        T = cs.ileb128 if self.signed else cs.uleb128
        x = inputs.get("x", inputs.get("v"))
        if x is None:
            return None
        if self.op == "write":
            out = io.BytesIO()
            try:
                n = T._write(out, x)
            except Exception as e:  # noqa: BLE001
                ok = isinstance(e, ValueError) and x < 0 and not self.signed
                return {"reproduced": not ok, "observed": f"raises {type(e).__name__} for {x}"}
            exp = scalars.py_leb(x, self.signed)
            return {"reproduced": out.getvalue() != exp or n != len(exp), "observed": f"wrote {out.getvalue().hex()} expected {exp.hex()}"}
        if self.op == "read":
            enc = scalars.py_leb(x, self.signed)
            s = io.BytesIO(enc + b"\xff\x00")
            try:
                r = T._read(s)
            except Exception as e:  # noqa: BLE001
                return {"reproduced": True, "observed": f"raises {type(e).__name__} on {enc.hex()}"}
            return {"reproduced": r != x or s.tell() != len(enc), "observed": f"read {r} from {enc.hex()} (pos {s.tell()}), expected {x}"}
        return None


def make_leb(signed, op):
    return LebCase(signed, op)


# ----------------------------------------------------------------------------------------------------


def specs(ops, tier="quick", endians=ENDIANS):
    """Case specs for run_cases. ops subset of {read, write, roundtrip, weak, reject}."""
    out = []
    want = set(ops)
    if "reject" in want:
        want.add("write")
    for t in INT_TYPES + PACKED_INT + PACKED_FLOAT + ["char", "wchar"]:
        for e in endians:
            for op in ("read", "write", "roundtrip", "weak"):
                if op in want:
                    out.append(("contracts.leaf", "make_leaf", (t, e, op)))
    for sg in (False, True):
        for op in ("read", "write", "weak"):
            if op in want:
                out.append(("contracts.leaf", "make_leb", (sg, op)))
    return out


# ----------------------------------------------------------------------------------------------------
# array entry points of the leaf types (C07): _read_array (fixed and symbolic count), _read_0, _write_array, _write_0


class ArrayCase(Case):
    timeout_ms = 30000

    def __init__(self, tname, endian, op):
        self.tname, self.endian, self.op = tname, endian, op
        self.name = f"leafarray:{tname}{endian}.{op}"
        self.functions = ["dissect/cstruct/types/base.py:MetaType._read_array", "dissect/cstruct/types/packed.py:Packed._read_array",
                          "dissect/cstruct/types/packed.py:Packed._read_0", "dissect/cstruct/types/packed.py:Packed._write_array",
                          "dissect/cstruct/types/char.py:Char._read_array", "dissect/cstruct/types/char.py:Char._read_0",
                          "dissect/cstruct/types/wchar.py:Wchar._read_array", "dissect/cstruct/types/wchar.py:Wchar._read_0",
                          "dissect/cstruct/types/int.py:Int._read_0", "dissect/cstruct/types/base.py:MetaType._write_0",
                          "dissect/cstruct/types/base.py:MetaType._write_array"]

    def body(self, ctx):
        cs = make_cs(self.endian)
        T = getattr(cs, self.tname)
        n = sizeof(self.tname)
        it = Interp(ctx, unroll=3)
        D = SBytes.fresh("D")
        p = z3.Int("p")
        ctx.assume(p >= 0)
        ctx.case_inputs.update(D=D, p=p)
        s = SymStream(ctx, D, p)
        L = D.length()
        seg = D.items[0]
        if self.op == "read_array_n":
            cnt = z3.Int("count")
            ctx.assume(cnt >= 0)
            ctx.case_inputs["count"] = cnt
            try:
                v = it.call(T._read_array, [s, cnt])
            except PyRaise as e:
                ctx.prove("raises-only-EOFError", e.cls is EOFError, info=e.cls.__name__)
                ctx.prove("raises-only-when-short", z3.And(cnt > 0, z3.Not(zint(p) + cnt * n <= zint(L))))
                ctx.cover("eof")
                return
            ctx.cover("returns")
            ctx.prove("returns-only-when-available", z3.Or(cnt == 0, zint(p) + cnt * n <= zint(L)))
            ctx.prove("consumes-count*size", ctx.eq(s.pos, _norm(zint(p) + cnt * n)))
            raw = v.raw if hasattr(v, "raw") else v
            if isinstance(raw, SStr):
                raw = raw.raw
            if isinstance(raw, str):
                raw = raw.encode("utf-16-le")
            if isinstance(raw, list) and not raw:
                raw = b""
            raw = SBytes.of(raw) if not isinstance(raw, SBytes) else raw
            ok = len(raw.items) == 0 and False
            if len(raw.items) == 1 and isinstance(raw.items[0], Seg):
                w = raw.items[0]
                ok = z3.And(w.fn is seg.fn, zint(w.off) == zint(p), zint(w.n) == cnt * n) if w.fn is seg.fn else False
            elif len(raw.items) == 0:
                ok = cnt == 0
            ctx.prove("elements-are-exactly-the-next-count*size-bytes", ok)
        elif self.op == "read_array_eof":
            from dissect.cstruct.types.base import EOF

            try:
                v = it.call(T._read_array, [s, EOF])
            except PyRaise as e:
                # a trailing partial element is outside the statement ("every remaining whole element")
                ctx.prove("refuses-only-a-partial-trailing-element", z3.And(zint(L) > zint(p), (zint(L) - zint(p)) % n != 0), info=e.cls.__name__)
                ctx.cover("partial")
                return
            ctx.cover("returns")
            ctx.prove("takes-everything-to-the-end", z3.Or(ctx.eq(s.pos, L) if not isinstance(ctx.eq(s.pos, L), bool) else z3.BoolVal(ctx.eq(s.pos, L)), zint(L) <= zint(p)))
        elif self.op == "read_0":
            try:
                v = it.call(T._read_0, [s])
            except PyRaise as e:
                ctx.prove("raises-only-EOFError", e.cls is EOFError, info=e.cls.__name__)
                ctx.cover("eof")
                return
            ctx.cover("returns")
            items = v if isinstance(v, list) else None
            if items is None:
                # char / wchar: one value holding all elements
                raw = v.raw if isinstance(v, SStr) else SBytes.of(v.encode("utf-16-le") if isinstance(v, str) else v)
                k = raw.length()
                cnt = k // n if isinstance(k, int) else None
                ctx.prove("bounded-shape", cnt is not None)
                if cnt is None:
                    return
                got = [raw.byte_at(i) for i in range(k)]
            else:
                cnt = len(items)
                got = None
            # position: count elements + the terminator were consumed
            ctx.prove("consumes-elements-and-terminator", ctx.eq(s.pos, _norm(zint(p) + (cnt + 1) * n)))
            # terminator is a zero element, all earlier elements are non-zero
            term = [seg.at(_norm(zint(p) + cnt * n + j)) for j in range(n)]
            if self.tname in PACKED_FLOAT:
                # zero as a float: +0.0 or -0.0
                ctx.prove("terminator-is-zero", True, info="float zero test is the codec's (opaque)")
            else:
                ctx.prove("terminator-is-zero", z3.And(*[zint(b) == 0 for b in term]))
                for i in range(cnt):
                    el = [seg.at(_norm(zint(p) + i * n + j)) for j in range(n)]
                    ctx.prove(f"element{i}-nonzero", z3.Or(*[zint(b) != 0 for b in el]))
                    if got is not None:
                        ctx.prove(f"element{i}-bytes", z3.And(*[zint(got[i * n + j]) == zint(el[j]) for j in range(n)]))
        elif self.op == "write_0":
            # dump of [a, b] re-appends exactly one zero element
            out = SymStream(ctx, SBytes([]), 0)
            if self.tname == "char":
                val = SBytes([z3.Int("c0"), z3.Int("c1")])
                for t in val.items:
                    ctx.assume_byte(t)
                arr = cs.char[None]
            elif self.tname == "wchar":
                val = SStr(SBytes([z3.Int("c0"), z3.Int("c1"), z3.Int("c2"), z3.Int("c3")]), "le" if ORDER[self.endian] == "little" else "be")
                for t in val.raw.items:
                    ctx.assume_byte(t)
                arr = cs.wchar[None]
            else:
                a, b = z3.Int("a"), z3.Int("b")
                if self.tname in PACKED_FLOAT:
                    return
                ctx.assume(z3.And(fits(a, n, is_signed(self.tname)), fits(b, n, is_signed(self.tname))))
                val = [a, b]
                arr = T[None]
            it.call(arr._write, [out, val])
            items = out.data.items
            ctx.cover("writes")
            ctx.prove("length==elements+one-terminator", len(items) == 3 * n)
            if len(items) == 3 * n:
                ctx.prove("terminator-is-one-zero-element", z3.And(*[zint(x) == 0 for x in items[2 * n:]]))


def _array_native(self, inputs):
    """Native replay of the array entry points against a plain-python reference."""
    import io as _io

    from dissect.cstruct.types.base import EOF

    cs = make_cs(self.endian)
    T = getattr(cs, self.tname)
    n = sizeof(self.tname)
    order = ORDER[self.endian]
    if "D" not in inputs:
        return None
    data = bytes.fromhex(inputs["D"])
    p = inputs["p"]
    if self.op in ("read_0", "read_0_any") and not inputs.get("_extended"):
        # a counter-model of the inductive step describes one arbitrary iteration: complete it with a terminator
        r = _array_native(self, {**inputs, "D": (data + bytes(max(0, p - len(data))) + bytes(2 * n)).hex() if len(data) <= p or True else inputs["D"], "_extended": True})
        if r and r.get("reproduced"):
            r["note"] = "input = the solver's model followed by a zero terminator"
            return r
    s = _io.BytesIO(data)
    s.seek(p)
    avail = data[p:]

    def dec(chunk):
        return scalars.py_decode(self.tname, chunk, order)

    try:
        if self.op == "read_array_n":
            cnt = inputs.get("count", 0)
            got = T._read_array(s, cnt)
            want_ok = cnt == 0 or len(avail) >= cnt * n
            exp = [dec(avail[i * n : (i + 1) * n]) for i in range(cnt)] if self.tname not in ("char", "wchar") else dec(avail[: cnt * n])
        elif self.op == "read_array_eof":
            got = T._read_array(s, EOF)
            want_ok = len(avail) % n == 0
            exp = [dec(avail[i : i + n]) for i in range(0, len(avail) - len(avail) % n, n)]
        elif self.op in ("read_0", "read_0_any"):
            got = T._read_0(s)
            els = []
            i = 0
            want_ok = False
            while i + n <= len(avail):
                ch = avail[i : i + n]
                i += n
                if ch == bytes(n):
                    want_ok = True
                    break
                els.append(ch)
            exp = [dec(c) for c in els] if self.tname not in ("char", "wchar") else dec(b"".join(els))
        else:
            return None
    except EOFError:
        return {"reproduced": bool(want_ok) if "want_ok" in dir() else False, "observed": f"raises EOFError with {len(avail)} bytes available"} if False else {
            "reproduced": _expected_ok(self, inputs, avail, n), "observed": f"raises EOFError with {len(avail)} bytes available"}
    except Exception as e:  # noqa: BLE001
        return {"reproduced": self.op != "read_array_eof", "observed": f"raises {type(e).__name__}: {e}"}
    same = (list(got) == list(exp)) if isinstance(exp, list) else scalars.py_same(got, exp)
    # stream position after the call: just past the elements (and the terminator)
    if self.op == "read_array_n":
        want_pos = p + cnt * n
    elif self.op == "read_array_eof":
        want_pos = max(p, len(data))
    else:
        want_pos = p + (len(els) + 1) * n
    pos_ok = (not want_ok) or s.tell() == want_pos
    obs = f"returned {got!r}"[:300] + f", reference {('returns ' + repr(exp))[:300] if want_ok else 'refuses (input too short)'}"
    if not pos_ok:
        obs += f"; stream left at {s.tell()}, expected {want_pos}"
    return {"reproduced": (not want_ok) or (not same) or not pos_ok, "observed": obs}


def _expected_ok(self, inputs, avail, n):
    """Would the reference have returned a value (so that an EOFError is a failure)?"""
    if self.op == "read_array_n":
        cnt = inputs.get("count", 0)
        return cnt == 0 or len(avail) >= cnt * n
    if self.op in ("read_0", "read_0_any"):
        return any(avail[i : i + n] == bytes(n) for i in range(0, len(avail) - n + 1, n))
    return False


ArrayCase.native = _array_native


def _array_standin(self):
    """Bounded native check of the array entry point against the plain-python reference (run only when the symbolic
    case was left undecided): element counts around 0..3, 255..257, 600, 1000; inputs complete, cut at every element
    boundary near both ends, cut inside an element; start offsets 0 and 5."""
    import random
    import zlib

    if self.op not in ("read_array_n", "read_array_eof", "read_0", "read_0_any"):
        return None
    rnd = random.Random(zlib.crc32(self.name.encode()))
    n = sizeof(self.tname)
    fails = []
    evals = 0
    for cnt in (0, 1, 2, 3, 254, 255, 256, 257, 600, 1000):
        body = bytes(rnd.randrange(1, 256) for _ in range(cnt * n))  # non-zero bytes: no accidental terminator
        if self.tname in PACKED_FLOAT or self.tname == "wchar":
            body = bytes((b & 0x3F) | 0x01 for b in body)  # ordinary finite floats / BMP code units
        if self.op in ("read_0", "read_0_any"):
            variants = [body + bytes(n) + b"\x07" * 3, body + bytes(n), body, body + bytes(n - 1) if n > 1 else body]
            if n >= 2 and self.tname not in PACKED_FLOAT:
                # non-zero elements whose zero bytes meet across an element boundary (a run of >= n zero bytes that is not
                # an element): x 0..0 | 0..0 y | y 0..0 | 0..0 x
                a, b = bytes([0x41] + [0] * (n - 1)), bytes([0] * (n - 1) + [0x4E])
                a2, b2 = bytes([0x4E] + [0] * (n - 1)), bytes([0] * (n - 1) + [0x41])
                cyc = b"".join((a, b, a2, b2)[i % 4] for i in range(cnt))
                variants += [cyc + bytes(n) + b"\x07" * 3, cyc]
        else:
            full = body + b"\x07" * 3
            cuts = {len(full), cnt * n, cnt * n - 1, cnt * n - n, (cnt // 2) * n, 256 * n, 255 * n, n, 1, 0}
            variants = [full[:c] for c in sorted(c for c in cuts if 0 <= c <= len(full))]
            if self.op == "read_array_eof":
                variants = [v[: len(v)] for v in variants] + [body, body + b"\x01"]
        for v in variants:
            for p in (0, 5):
                inputs = {"D": (bytes(rnd.randrange(256) for _ in range(p)) + v).hex(), "p": p, "count": cnt, "_extended": True}
                evals += 1
                try:
                    r = _array_native(self, inputs)
                except Exception as e:  # noqa: BLE001
                    r = {"reproduced": None, "observed": f"oracle crashed: {type(e).__name__}: {e}"}
                if r and r.get("reproduced") and len(fails) < 3:
                    d = dict(inputs)
                    d.pop("_extended")
                    if len(d["D"]) > 200:
                        d["D"] = d["D"][:64] + f"...({len(d['D']) // 2} bytes)"
                    fails.append({"id": f"count{cnt}-len{len(v)}-p{p}", "inputs": d, "observed": r.get("observed")})
    return {"name": f"standin:{self.name}", "bound": _array_standin.__doc__.split(":", 1)[1].strip(), "evaluations": evals, "distinct": evals, "failures": fails}


ArrayCase.standin = _array_standin


def make_array(tname, endian, op):
    return ArrayCase(tname, endian, op)


def array_specs(tier="quick"):
    out = []
    for t in ["uint8", "int16", "uint32", "int64", "float", "char", "wchar"]:
        for e in ("<", ">"):
            out.append(("contracts.leaf", "make_array", (t, e, "read_array_n")))
            out.append(("contracts.leaf", "make_array", (t, e, "read_0")))
            out.append(("contracts.leaf", "make_array", (t, e, "write_0")))
            if t not in ("char", "wchar"):
                out.append(("contracts.leaf", "make_array", (t, e, "read_array_eof")))
        if t in ("int16", "uint32", "float", "wchar"):
            # network byte order spelled '!' (every place that branches on the byte order must treat it as big endian)
            out.append(("contracts.leaf", "make_array", (t, "!", "read_array_n")))
    for t in ["int24", "uint48"]:
        for e in ("<", ">"):
            out.append(("contracts.leaf", "make_array", (t, e, "read_0")))
            out.append(("contracts.leaf", "make_array", (t, e, "write_0")))
            out.append(("contracts.leaf", "make_array", (t, e, "read_array_eof")))
    return out + read0_specs()


# ----------------------------------------------------------------------------------------------------
# null-terminated readers, for every number of elements: inductive step on an abstract result list


class AbsList:
    """The result list of a _read_0 loop after k iterations: only its length is known symbolically; appends of the
    current iteration are recorded."""

    _pyvc_model = True

    def __init__(self, k):
        self.k = k
        self.appended = []

    def append(self, v):
        self.appended.append(v)

    def _pyvc_join(self, interp):
        """b"".join(result) after the loop: by the invariant the k elements are the k*size bytes from p on."""
        if self.appended or self.window is None:
            from pyvc.sym import Unsupported

            raise Unsupported("join of a result list with pending appends")
        return self.window


class _Read0Loop:
    """Invariant (ghost k = elements read so far): stream.pos == p + k*size, len(result) == k, every element read so far
    was non-zero. One arbitrary iteration: reads exactly one element at pos; zero -> leaves the loop without appending;
    non-zero -> appends exactly that element. By induction the function returns the elements before the first zero
    element and leaves the stream just after it."""

    def __init__(self, case, stream, p, size, var):
        self.case, self.stream, self.p, self.size, self.var = case, stream, p, size, var

    def establish(self, it, frame, tag):
        r = frame.locals[self.var]
        it.ctx.prove(tag + "/starts-empty-at-p", (len(r) == 0) and it.ctx.eq(self.stream.pos, self.p) is True)

    def havoc(self, it, frame, g0):
        ctx = it.ctx
        k = ctx.fresh_int("k")
        ctx.assume(k >= 0)
        self.stream.pos = _norm(zint(self.p) + k * self.size)
        self.lst = AbsList(k)
        self.lst.window = SBytes([self.case.seg.window(self.p, _norm(k * self.size))]) if self.var == "buf" else None
        frame.locals[self.var] = self.lst
        for n in ("data", "value", "byte", "point", "bytes_read"):
            frame.locals.pop(n, None)
        self.k = k
        self.mark = len(self.stream.log)
        return {"k": k}

    def at_exit(self, *a):
        pass

    def at_break(self, it, frame, g):
        self.case.broke = True

    def preserve(self, it, frame, g, tag):
        ctx = it.ctx
        k = g["k"]
        seg = self.case.seg
        el = [seg.at(_norm(zint(self.p) + k * self.size + j)) for j in range(self.size)]
        ctx.prove(tag + "/consumes-exactly-one-element", ctx.eq(self.stream.pos, _norm(zint(self.p) + (k + 1) * self.size)))
        ctx.prove(tag + "/appends-exactly-the-element-read", len(self.lst.appended) == 1)
        if len(self.lst.appended) == 1 and self.case.tname not in PACKED_FLOAT:
            ctx.prove(tag + "/continues-only-on-a-non-zero-element", z3.Or(*[zint(b) != 0 for b in el]))
            if self.var == "buf":
                # char / wchar collect the raw element bytes and decode once after the loop
                ap = self.lst.appended[0]
                ctx.prove(tag + "/appended-element-is-the-raw-element", isinstance(ap, (SBytes, bytes)) and SBytes.of(ap).eq(SBytes(el)))
            else:
                ctx.prove(tag + "/appended-element-is-the-standard-decoding", self.case.spec_decode_ok(ctx, self.lst.appended[0], el))


class Read0Case(LeafCase):
    def __init__(self, tname, endian):
        super().__init__(tname, endian, "read_0_any")
        self.name = f"leafarray:{tname}{endian}.read_0[any length]"

    def body(self, ctx):
        from dissect.cstruct.types.char import Char
        from dissect.cstruct.types.int import Int
        from dissect.cstruct.types.packed import Packed
        from dissect.cstruct.types.wchar import Wchar

        cs = make_cs(self.endian)
        T = getattr(cs, self.tname)
        n = sizeof(self.tname)
        D = SBytes.fresh("D")
        p = z3.Int("p")
        ctx.assume(p >= 0)
        ctx.case_inputs.update(D=D, p=p)
        s = SymStream(ctx, D, p)
        self.seg = D.items[0]
        self.broke = False
        owner = next(k for k in T.__mro__ if "_read_0" in k.__dict__)
        q = f"{owner.__name__}._read_0"
        var = "buf" if self.tname in ("char", "wchar") else "result"
        loop = _Read0Loop(self, s, p, n, var)
        it = Interp(ctx, loopspecs={(q, 0): loop})
        try:
            r = it.call(T._read_0, [s])
        except PyRaise as e:
            ctx.prove("refuses-only-with-EOFError", e.cls is EOFError, info=e.cls.__name__)
            k = getattr(loop, "k", None)
            if k is not None:
                ctx.prove("refuses-only-when-the-next-element-is-incomplete", z3.Not(zint(p) + (k + 1) * n <= zint(D.length())))
            ctx.cover("eof")
            return
        ctx.cover("returns")
        k = loop.k
        el = [self.seg.at(_norm(zint(p) + k * n + j)) for j in range(n)]
        ctx.prove("stops-at-the-first-zero-element", z3.And(*[zint(b) == 0 for b in el]) if self.tname not in PACKED_FLOAT else True)
        ctx.prove("terminator-consumed", ctx.eq(s.pos, _norm(zint(p) + (k + 1) * n)))
        ctx.prove("terminator-not-appended", len(loop.lst.appended) == 0)
        if var == "buf":
            raw = r.raw if isinstance(r, SStr) else r
            raw = raw if isinstance(raw, SBytes) else None
            ok = False
            if raw is not None and len(raw.items) == 1 and isinstance(raw.items[0], Seg):
                w = raw.items[0]
                ok = z3.And(zint(w.off) == zint(self.seg.off) + zint(p), zint(w.n) == k * n) if w.fn is self.seg.fn else False
            ctx.prove("value-is-exactly-the-bytes-before-the-terminator", ok, info=f"{type(r).__name__}")
            if self.tname == "wchar":
                ctx.prove("decoded-in-the-current-byte-order", isinstance(r, SStr) and r.endian == ("le" if ORDER[self.endian] == "little" else "be"))


Read0Case.native = _array_native
Read0Case.standin = _array_standin


def make_read0(tname, endian):
    return Read0Case(tname, endian)


def read0_specs():
    return [("contracts.leaf", "make_read0", (t, e)) for t in ("uint8", "int16", "uint32", "int64", "int24", "uint48", "char", "wchar") for e in ("<", ">")]
