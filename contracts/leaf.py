"""T1 contracts of the leaf codecs (Int, Packed, Char, Wchar, LEB128, Void, Pointer, Enum delegation).

Each case = one real function of one built-in type class in one byte order; data, stream contents,
start position and stream length are symbolic. The byte order is changed on the cstruct object
*after* the types were created, so a codec that cached the byte order fails its contract (C05).

Contract shapes (from the property statements):
  _read  (strong stream)  returns  <=> the stream holds size more bytes; result = standard decoding of exactly
                          those bytes in the *current* byte order; position advances by size; otherwise EOFError
  _read  (weak stream)    returns only if every read() delivered exactly what was asked; a stream fault propagates
  _write                  rejects (OverflowError / struct.error / ValueError) exactly the values that do not fit,
                          otherwise appends exactly the standard encoding and returns its length
"""
from __future__ import annotations

import io
import struct

import z3

from pyvc.ctx import PyRaise
from pyvc.harness import Case
from pyvc.interp import Interp
from pyvc.models import _norm, deep_eq, fits
from pyvc.stream import SymStream, WeakStream
from pyvc.sym import SBytes, SEnum, SFloat, SPtr, SStr, Seg, ByteSeq, is_z3, strip, zint
from specs import scalars

ENDIANS = ("<", ">", "!")
INT_TYPES = ["int24", "uint24", "int48", "uint48", "int128", "uint128"]
PACKED_INT = ["int8", "uint8", "int16", "uint16", "int32", "uint32", "int64", "uint64"]
PACKED_FLOAT = ["float16", "float", "double"]
ORDER = {"<": "little", ">": "big", "!": "big"}


def make_cs(endian, pointer=None):
    """Types are created under '<' and the byte order is switched afterwards (call-time lookup, C05)."""
    from dissect.cstruct import cstruct

    cs = cstruct(endian="<" if endian != "<" else ">", pointer=pointer)
    cs.load("enum E16 : uint16 { A = 1, B = 2 }; flag F8 : uint8 { X = 1, Y = 2 }; enum ES : int32 { N = -1 };", compiled=False)
    cs.endian = endian
    return cs


def sizeof(tname):
    return {"int8": 1, "uint8": 1, "int16": 2, "uint16": 2, "int32": 4, "uint32": 4, "int64": 8, "uint64": 8, "float16": 2,
            "float": 4, "double": 8, "int24": 3, "uint24": 3, "int48": 6, "uint48": 6, "int128": 16, "uint128": 16, "char": 1,
            "wchar": 2}[tname]


def is_signed(tname):
    return tname.startswith("int")


class LeafCase(Case):
    timeout_ms = 30000

    def __init__(self, tname, endian, op):
        self.tname, self.endian, self.op = tname, endian, op
        self.name = f"leaf:{tname}{endian}.{op}"
        mod = {"int": "types/int.py:Int", "packed": "types/packed.py:Packed", "char": "types/char.py:Char", "wchar": "types/wchar.py:Wchar"}
        k = self.kind()
        self.functions = [f"dissect/cstruct/{mod[k]}._read", f"dissect/cstruct/{mod[k]}._write"]

    def kind(self):
        if self.tname in INT_TYPES:
            return "int"
        if self.tname in PACKED_INT + PACKED_FLOAT:
            return "packed"
        return self.tname

    # ---- specification side (independent formulations)
    def spec_decode_ok(self, ctx, value, byte_items):
        """value is the standard decoding of byte_items (stream order) in the current byte order."""
        n = len(byte_items)
        le = byte_items if ORDER[self.endian] == "little" else list(reversed(byte_items))
        t = self.tname
        if t in PACKED_FLOAT:
            bits = value.bits if isinstance(value, SFloat) else None
            if bits is None:
                return False
            u = z3.IntVal(0)
            for b in reversed(le):
                u = u * 256 + zint(b)
            return _norm(zint(bits) == u)
        if t == "char":
            return deep_eq(None, value, SBytes(byte_items)) if False else SBytes.of(value).eq(SBytes(byte_items))
        if t == "wchar":
            if not isinstance(value, SStr):
                return False
            want = "le" if ORDER[self.endian] == "little" else "be"
            return value.endian == want and value.raw.eq(SBytes(byte_items))
        v = zint(strip(value))
        # Horner form of the unsigned value, then two's complement
        u = z3.IntVal(0)
        for b in reversed(le):
            u = u * 256 + zint(b)
        if is_signed(t):
            u = z3.If(zint(le[-1]) >= 128, u - (1 << (8 * n)), u)
        return _norm(v == u)

    def spec_encode_ok(self, ctx, value, byte_items):
        """byte_items (stream order) are the standard encoding of value: byte i (little-endian index) is the i-th base-256
        digit of the two's complement representation (digit characterisation; the decoder side uses the Horner form)."""
        t = self.tname
        if t in PACKED_FLOAT or t in ("char", "wchar"):
            return self.spec_decode_ok(ctx, value, byte_items)
        n = len(byte_items)
        le = byte_items if ORDER[self.endian] == "little" else list(reversed(byte_items))
        v = zint(strip(value))
        return _norm(z3.And(*[scalars.digit(v, i) == zint(le[i]) for i in range(n)]))

    # ---- bodies
    def body(self, ctx):
        cs = make_cs(self.endian)
        T = getattr(cs, self.tname)
        n = sizeof(self.tname)
        it = Interp(ctx, unroll=3)
        getattr(self, "op_" + self.op)(ctx, it, cs, T, n)

    def op_read(self, ctx, it, cs, T, n):
        D = SBytes.fresh("D")
        p = z3.Int("p")
        ctx.assume(p >= 0)
        ctx.case_inputs.update(D=D, p=p)
        s = SymStream(ctx, D, p)
        L = D.length()
        try:
            v = it.call(T._read, [s])
        except PyRaise as e:
            ctx.cover("eof")
            ctx.prove("raises-only-EOFError", e.cls is EOFError, info=f"raised {e.cls.__name__}")
            ctx.prove("raises-only-when-short", z3.Not(zint(p) + n <= zint(L)), info="EOFError although size bytes were available")
            return
        ctx.cover("returns")
        ctx.prove("returns-only-when-available", zint(p) + n <= zint(L))
        ctx.prove("position-advanced-by-size", ctx.eq(s.pos, _norm(zint(p) + n)))
        seg = D.items[0]
        items = [seg.at(_norm(zint(p) + i)) for i in range(n)]
        ctx.prove("standard-decoding-current-endianness", self.spec_decode_ok(ctx, v, items))
        ctx.prove("stream-data-unchanged", s.data.items[0] is seg and len(s.data.items) == 1)

    def op_weak(self, ctx, it, cs, T, n):
        s = WeakStream(ctx)
        try:
            it.call(T._read, [s])
        except PyRaise as e:
            faults = [x for x in s.log if x[2]]
            if faults:
                ctx.prove("stream-fault-propagates", e.cls is OSError, info=f"raised {e.cls.__name__}")
            else:
                ctx.prove("short-delivery-raises-EOFError", e.cls is EOFError, info=f"raised {e.cls.__name__}")
                ctx.prove("raises-only-when-short", z3.Or(*[zint(x[1]) != zint(x[0]) for x in s.log if not x[2]]))
            ctx.cover("refused")
            return
        ctx.cover("returns")
        ctx.prove("no-fault-swallowed", not any(x[2] for x in s.log))
        ctx.prove("every-read-was-full", z3.And(*[zint(x[1]) == zint(x[0]) for x in s.log]) if s.log else True)
        ctx.prove("reads-exactly-size", _norm(sum((zint(x[0]) for x in s.log), z3.IntVal(0)) == n))

    def sym_value(self, ctx, n):
        t = self.tname
        if t in PACKED_FLOAT:
            b = z3.Int("bits")
            ctx.assume(z3.And(b >= 0, b < (1 << (8 * n))))
            ctx.case_inputs["bits"] = b
            return SFloat(b, 8 * n), None
        if t == "char":
            b = z3.Int("c")
            ctx.assume(z3.And(b >= 0, b <= 255))
            ctx.case_inputs["c"] = b
            return SBytes([b]), None
        if t == "wchar":
            b0, b1 = z3.Int("u0"), z3.Int("u1")
            ctx.assume(z3.And(b0 >= 0, b0 <= 255, b1 >= 0, b1 <= 255))
            ctx.case_inputs.update(u0=b0, u1=b1)
            return SStr(SBytes([b0, b1]), "le" if ORDER[self.endian] == "little" else "be"), None
        x = z3.Int("x")
        ctx.case_inputs["x"] = x
        return x, x

    def op_write(self, ctx, it, cs, T, n):
        v, x = self.sym_value(ctx, n)
        O = SBytes.fresh("O")
        out = SymStream(ctx, O, 0)
        out.pos = out.total()
        oldseg = O.items[0]
        try:
            r = it.call(T._write, [out, v])
        except PyRaise as e:
            ctx.cover("rejects")
            if x is None:
                ctx.prove("never-rejects-domain-value", False, info=f"raised {e.cls.__name__}")
                return
            ctx.prove("rejects-only-values-that-do-not-fit", z3.Not(fits(x, n, is_signed(self.tname))), info=f"raised {e.cls.__name__}")
            ctx.prove("rejection-is-an-error-not-truncation", e.cls in (OverflowError, struct.error), info=e.cls.__name__)
            return
        ctx.cover("writes")
        if x is not None:
            ctx.prove("accepts-only-values-that-fit", fits(x, n, is_signed(self.tname)))
        ctx.prove("returns-size", ctx.eq(strip(r), n))
        items = out.data.items
        ctx.prove("appends-exactly-size-bytes", len(items) == 1 + n and items[0] is oldseg)
        if len(items) == 1 + n:
            ctx.prove("standard-encoding-current-endianness", self.spec_encode_ok(ctx, v, items[1:]))

    def op_roundtrip(self, ctx, it, cs, T, n):
        v, x = self.sym_value(ctx, n)
        if x is not None:
            ctx.assume(fits(x, n, is_signed(self.tname)))
        out = SymStream(ctx, SBytes([]), 0)
        it.call(T._write, [out, v])
        R = SBytes.fresh("R")
        s = SymStream(ctx, out.data.concat(R), 0)
        w = it.call(T._read, [s])
        ctx.cover("reach")
        ctx.prove("read(write(v))==v", deep_eq(it, w, v))
        ctx.prove("consumes-len(dumps(v))", ctx.eq(s.pos, out.data.length()))

    # ---- native replay
    def native(self, inputs):
        from dissect.cstruct import cstruct

        cs = make_cs(self.endian)
        T = getattr(cs, self.tname)
        n = sizeof(self.tname)
        order = ORDER[self.endian]
        obs = {}
        if self.op == "read":
            data = bytes.fromhex(inputs["D"])
            p = inputs["p"]
            s = io.BytesIO(data)
            s.seek(p)
            try:
                v = T._read(s)
            except Exception as e:  # noqa: BLE001
                ok = isinstance(e, EOFError) and len(data) - p < n
                return {"reproduced": not ok, "observed": f"raises {type(e).__name__} with {max(0, len(data) - p)} bytes available"}
            chunk = data[p : p + n]
            exp = scalars.py_decode(self.tname, chunk, order)
            ok = len(chunk) == n and s.tell() == p + n and scalars.py_same(v, exp)
            return {"reproduced": not ok, "observed": f"value {v!r} expected {exp!r} pos {s.tell()}"}
        if self.op in ("write", "roundtrip"):
            if "x" in inputs:
                x = inputs["x"]
            elif "bits" in inputs:
                x = scalars.py_decode(self.tname, inputs["bits"].to_bytes(n, "little"), "little")
            elif "c" in inputs:
                x = bytes([inputs["c"]])
            else:
                x = bytes([inputs["u0"], inputs["u1"]]).decode("utf-16-le" if order == "little" else "utf-16-be", "surrogatepass")
            out = io.BytesIO()
            try:
                r = T._write(out, x)
            except Exception as e:  # noqa: BLE001
                fit = scalars.py_fits(self.tname, x)
                ok = (not fit) and isinstance(e, (OverflowError, struct.error))
                return {"reproduced": not ok, "observed": f"raises {type(e).__name__} for {x!r} (fits={fit})"}
            exp = scalars.py_encode(self.tname, x, order)
            got = out.getvalue()
            ok = got == exp and r == n
            if ok and self.op == "roundtrip":
                back = T._read(io.BytesIO(got + b"\xaa"))
                ok = scalars.py_same(back, x)
                return {"reproduced": not ok, "observed": f"wrote {got.hex()} read back {back!r} for {x!r}"}
            return {"reproduced": not ok, "observed": f"wrote {got.hex()} expected {exp.hex() if exp is not None else None} returned {r}"}
        return None


def make_leaf(tname, endian, op):
    return LeafCase(tname, endian, op)


# ----------------------------------------------------------------------------------------------------
# LEB128: real loops, inductive invariants against the recursive spec (canonical minimal encoding)


class _WriteLoop:
    def __init__(self, enc, x0, signed):
        self.enc, self.x0, self.signed = enc, x0, signed

    def inv(self, it, frame):
        res = SBytes.of(frame.locals["result"])
        data = frame.locals["data"]
        c = self.enc(zint(self.x0)) == z3.Concat(res.seq(), self.enc(zint(data))) if res.items else self.enc(zint(self.x0)) == self.enc(zint(data))
        if not self.signed:
            c = z3.And(c, zint(data) >= 0)
        return c

    def establish(self, it, frame, tag):
        it.ctx.prove(tag + "/invariant-established", self.inv(it, frame))

    def havoc(self, it, frame, g0):
        ctx = it.ctx
        frame.locals["data"] = ctx.fresh_int("data")
        R = z3.Const(ctx.fresh("R"), ByteSeq)
        frame.locals["result"] = SBytes([Seg(R, z3.Length(R))], mutable=True)
        frame.locals.pop("byte", None)
        ctx.assume(self.inv(it, frame), heavy=True)
        ctx.assume(scalars.unfold(self.enc, frame.locals["data"]), heavy=True)

    def at_exit(self, *a):
        pass

    def at_break(self, *a):
        pass

    def preserve(self, it, frame, g, tag):
        it.ctx.prove(tag + "/invariant-preserved", self.inv(it, frame))


class _ReadLoop:
    """Invariant of LEB128._read: with ghost u (the not yet decoded part of v):
       remaining input == enc(u) ++ rest,  v == result + u * 2^shift,  0 <= result < 2^shift,  shift == 7 * k."""

    def __init__(self, enc, v, rest, signed, stream):
        self.enc, self.v, self.rest, self.signed, self.stream = enc, v, rest, signed, stream

    def establish(self, it, frame, tag):
        ctx = it.ctx
        ctx.prove(tag + "/invariant-established", z3.And(zint(frame.locals["result"]) == 0, zint(frame.locals["shift"]) == 0))

    def havoc(self, it, frame, g0):
        ctx = it.ctx
        k = ctx.fresh_int("k")
        u = ctx.fresh_int("u")
        res = ctx.fresh_int("result")
        ctx.assume(k >= 0)
        sh = 7 * k
        P = ctx.pow2(sh)
        frame.locals["result"] = res
        frame.locals["shift"] = _norm(sh)
        frame.locals.pop("b", None)
        ctx.assume(z3.And(res >= 0, res < zint(P)))
        ctx.assume(zint(self.v) == res + u * zint(P))
        if not self.signed:
            ctx.assume(u >= 0)
        # the stream now stands at the start of enc(u) ++ rest (suffix view)
        E = self.enc(u)
        ctx.assume(scalars.unfold(self.enc, u), heavy=True)
        self.stream.data = SBytes([Seg(E, z3.Length(E)), Seg(self.rest, z3.Length(self.rest))])
        self.stream.pos = 0
        ctx.ghost["leb_u"] = u
        ctx.ghost["leb_k"] = k
        return {"u": u, "k": k}

    def at_exit(self, *a):
        pass

    def at_break(self, it, frame, g):
        it.ctx.ghost["leb_break"] = True

    def preserve(self, it, frame, g, tag):
        ctx = it.ctx
        u, k = g["u"], g["k"]
        u2 = u / 128  # floor (divisor positive)
        sh2 = 7 * (k + 1)
        P2 = ctx.pow2(sh2)
        res = frame.locals["result"]
        goal = z3.And(
            zint(frame.locals["shift"]) == sh2,
            zint(res) >= 0,
            zint(res) < zint(P2),
            zint(self.v) == zint(res) + u2 * zint(P2),
            ctx.eq(self.stream.pos, 1),
            u2 >= 0 if not self.signed else True,
        )
        ctx.prove(tag + "/invariant-preserved", goal)
        # remaining input after this iteration is enc(u div 128) ++ rest
        full = self.stream.data.seq()
        ctx.prove(tag + "/suffix-preserved", z3.Extract(full, z3.IntVal(1), z3.Length(full) - 1) == z3.Concat(self.enc(u2), self.rest))


class LebCase(Case):
    timeout_ms = 60000

    def __init__(self, signed, op):
        self.signed, self.op = bool(signed), op
        self.name = f"leaf:{'ileb128' if signed else 'uleb128'}.{op}"
        self.functions = ["dissect/cstruct/types/leb128.py:LEB128._read", "dissect/cstruct/types/leb128.py:LEB128._write"]

    def body(self, ctx):
        cs = make_cs("<")
        T = cs.ileb128 if self.signed else cs.uleb128
        enc = scalars.enc_s if self.signed else scalars.enc_u
        getattr(self, "op_" + self.op)(ctx, cs, T, enc)

    def op_write(self, ctx, cs, T, enc):
        x0 = z3.Int("x0")
        ctx.case_inputs["x"] = x0
        out = SymStream(ctx, SBytes.fresh("O"), 0)
        out.pos = out.total()
        it = Interp(ctx, loopspecs={("LEB128._write", 0): _WriteLoop(enc, x0, self.signed)})
        old = out.data.seq()
        try:
            n = it.call(T._write, [out, x0])
        except PyRaise as e:
            ctx.cover("rejects")
            ctx.prove("rejects-only-negative-in-unsigned-mode", z3.And(x0 < 0, not self.signed) if e.cls is ValueError else False, info=e.cls.__name__)
            return
        ctx.cover("writes")
        ctx.prove("accepts-whole-domain", z3.Or(x0 >= 0, self.signed))
        ctx.prove("appends-canonical-encoding", out.data.seq() == z3.Concat(old, enc(x0)))
        ctx.prove("returns-length", zint(n) == z3.Length(enc(x0)))

    def op_read(self, ctx, cs, T, enc):
        v = z3.Int("v")
        if not self.signed:
            ctx.assume(v >= 0)
        rest = z3.Const("rest", ByteSeq)
        ctx.case_inputs["v"] = v
        E = enc(v)
        s = SymStream(ctx, SBytes([Seg(E, z3.Length(E)), Seg(rest, z3.Length(rest))]), 0)
        it = Interp(ctx, loopspecs={("LEB128._read", 0): _ReadLoop(enc, v, rest, self.signed, s)})
        try:
            r = it.call(T._read, [s])
        except PyRaise as e:
            ctx.prove("never-refuses-a-complete-encoding", False, info=f"raised {e.cls.__name__}")
            return
        ctx.cover("returns")
        ctx.prove("decodes-to-v-with-sign-extension", zint(strip(r)) == v)
        # consumed exactly the encoding: after the last iteration the stream stands 1 byte into enc(u)=[b]
        u = ctx.ghost.get("leb_u")
        ctx.prove("consumes-exactly-the-encoding", z3.And(ctx.eq(s.pos, 1), z3.Length(enc(u)) == 1) if u is not None else False)

    def op_weak(self, ctx, cs, T, enc):
        s = WeakStream(ctx)
        it = Interp(ctx, unroll=3)
        try:
            it.call(T._read, [s])
        except PyRaise as e:
            faults = [x for x in s.log if x[2]]
            if faults:
                ctx.prove("stream-fault-propagates", e.cls is OSError, info=e.cls.__name__)
            else:
                ctx.prove("short-delivery-raises-EOFError", e.cls is EOFError, info=e.cls.__name__)
            ctx.cover("refused")
            return
        ctx.cover("returns")
        ctx.prove("every-read-was-full", z3.And(*[zint(x[1]) == 1 for x in s.log if not x[2]]))
        ctx.prove("no-fault-swallowed", not any(x[2] for x in s.log))

    def native(self, inputs):
        cs = make_cs("<")
        T = cs.ileb128 if self.signed else cs.uleb128
        x = inputs.get("x", inputs.get("v"))
        if x is None:
            return None
        if self.op == "write":
            out = io.BytesIO()
            try:
                n = T._write(out, x)
            except Exception as e:  # noqa: BLE001
                ok = isinstance(e, ValueError) and x < 0 and not self.signed
                return {"reproduced": not ok, "observed": f"raises {type(e).__name__} for {x}"}
            exp = scalars.py_leb(x, self.signed)
            return {"reproduced": out.getvalue() != exp or n != len(exp), "observed": f"wrote {out.getvalue().hex()} expected {exp.hex()}"}
        if self.op == "read":
            enc = scalars.py_leb(x, self.signed)
            s = io.BytesIO(enc + b"\xff\x00")
            try:
                r = T._read(s)
            except Exception as e:  # noqa: BLE001
                return {"reproduced": True, "observed": f"raises {type(e).__name__} on {enc.hex()}"}
            return {"reproduced": r != x or s.tell() != len(enc), "observed": f"read {r} from {enc.hex()} (pos {s.tell()}), expected {x}"}
        return None


def make_leb(signed, op):
    return LebCase(signed, op)


# ----------------------------------------------------------------------------------------------------


def specs(ops, tier="quick", endians=ENDIANS):
    """Case specs for run_cases. ops subset of {read, write, roundtrip, weak, reject}."""
    out = []
    want = set(ops)
    if "reject" in want:
        want.add("write")
    for t in INT_TYPES + PACKED_INT + PACKED_FLOAT + ["char", "wchar"]:
        for e in endians:
            for op in ("read", "write", "roundtrip", "weak"):
                if op in want:
                    out.append(("contracts.leaf", "make_leaf", (t, e, op)))
    for sg in (False, True):
        for op in ("read", "write", "weak"):
            if op in want:
                out.append(("contracts.leaf", "make_leb", (sg, op)))
    return out
