"""Frame ('assigns') obligations, computed from the AST of the working tree.

For every function on the parse / dump path, the set of heap locations it may write is over-approximated
syntactically: attribute stores, subscript stores and calls of mutating methods, each classified by its receiver.
A receiver is *shared* when the object outlives the call and is reachable from a type object (the type class
itself, the cstruct object, an Expression attached to an array type, module-level objects); it is *local* when it
is a local variable bound to an object created in this call, the stream argument, the value being built, or a
per-parse helper (BitBuffer). The obligation "assigns nothing shared" is discharged when no store has a shared
receiver. It is a sufficient condition for C14's 'parsing is a pure function of type and bytes' and for C15's
'no type-level scratch state' (sound, not complete: a benign shared write would be flagged too).
"""
from __future__ import annotations

import ast
import os

from pyvc.harness import Case

REPO = os.environ.get("VERIF_REPO", "/repo")

# functions on the parse / dump path: file -> {qualname: {param or 'self' name: 'shared' | 'local'}}
PATH_FUNCS = {
    "dissect/cstruct/expression.py": {
        "Expression.evaluate": {"self": "shared"},
        "Expression.evaluate_exp": {"self": "shared"},
        "Expression.precedence": {"self": "shared"},
        "Expression.is_number": {"self": "shared"},
    },
    "dissect/cstruct/bitbuffer.py": {
        "BitBuffer.read": {"self": "local"}, "BitBuffer.write": {"self": "local"}, "BitBuffer.flush": {"self": "local"},
        "BitBuffer.reset": {"self": "local"}, "BitBuffer.__init__": {"self": "local"},
    },
    "dissect/cstruct/types/base.py": {
        "MetaType.__call__": {"cls": "shared"}, "MetaType.reads": {"cls": "shared"}, "MetaType.read": {"cls": "shared"},
        "MetaType.write": {"cls": "shared"}, "MetaType.dumps": {"cls": "shared"}, "MetaType._read_array": {"cls": "shared"},
        "MetaType._write_array": {"cls": "shared"}, "MetaType._write_0": {"cls": "shared"}, "MetaType.__len__": {"cls": "shared"},
        "BaseArray._read": {"cls": "shared"}, "BaseArray._write": {"cls": "shared"}, "Array._read": {"cls": "shared"}, "_is_eof": {},
        "BaseArray.__default__": {"cls": "shared"}, "MetaType.__default__": {"cls": "shared"},
        # one descriptor object per overloaded method (dumps/write) serves every type and every thread
        "_overload.__get__": {"self": "shared"}, "_overload.__call__?": {"self": "shared"}, "_overload.__init__": {"self": "local"},
    },
    "dissect/cstruct/types/structure.py": {
        "StructureMetaType._read": {"cls": "shared"}, "StructureMetaType._read_0": {"cls": "shared"}, "StructureMetaType._write": {"cls": "shared"},
        "StructureMetaType.__call__": {"cls": "shared"}, "UnionMetaType.__call__": {"cls": "shared"}, "UnionMetaType._read_fields": {"cls": "shared"},
        "UnionMetaType._read": {"cls": "shared"}, "UnionMetaType._write": {"cls": "shared"}, "Union._update": {"self": "local"},
        "Union._rebuild": {"self": "local"}, "Union._proxify": {"self": "local"}, "Union.__setattr__": {"self": "local"},
    },
    "dissect/cstruct/types/int.py": {"Int._read": {"cls": "shared"}, "Int._read_0": {"cls": "shared"}, "Int._write": {"cls": "shared"}},
    "dissect/cstruct/types/packed.py": {"Packed._read": {"cls": "shared"}, "Packed._read_array": {"cls": "shared"}, "Packed._read_0": {"cls": "shared"},
                                        "Packed._write": {"cls": "shared"}, "Packed._write_array": {"cls": "shared"}, "_struct": {}},
    "dissect/cstruct/types/char.py": {"Char._read": {"cls": "shared"}, "Char._read_array": {"cls": "shared"}, "Char._read_0": {"cls": "shared"},
                                      "Char._write": {"cls": "shared"}, "CharArray._read": {"cls": "shared"}, "CharArray._write": {"cls": "shared"}},
    "dissect/cstruct/types/wchar.py": {"Wchar._read": {"cls": "shared"}, "Wchar._read_array": {"cls": "shared"}, "Wchar._read_0": {"cls": "shared"},
                                       "Wchar._write": {"cls": "shared"}, "WcharArray._read": {"cls": "shared"}, "WcharArray._write": {"cls": "shared"}},
    "dissect/cstruct/types/leb128.py": {"LEB128._read": {"cls": "shared"}, "LEB128._read_0": {"cls": "shared"}, "LEB128._write": {"cls": "shared"}},
    "dissect/cstruct/types/enum.py": {"EnumMetaType._read": {"cls": "shared"}, "EnumMetaType._read_array": {"cls": "shared"},
                                      "EnumMetaType._read_0": {"cls": "shared"}, "EnumMetaType._write": {"cls": "shared"},
                                      "EnumMetaType._write_array": {"cls": "shared"}, "EnumMetaType._write_0": {"cls": "shared"},
                                      "EnumMetaType.__call__": {"cls": "shared"}},
    "dissect/cstruct/types/pointer.py": {"Pointer._read": {"cls": "shared"}, "Pointer._write": {"cls": "shared"}, "Pointer.dereference": {"self": "local"},
                                         "Pointer.__new__": {"cls": "shared"}},
    "dissect/cstruct/types/void.py": {"Void._read": {"cls": "shared"}, "Void._write": {"cls": "shared"}},
    "dissect/cstruct/cstruct.py": {"cstruct.resolve": {"self": "shared"}, "cstruct.read": {"self": "shared"}, "cstruct.__getattr__": {"self": "shared"}},
}
MUTATORS = {"append", "extend", "insert", "pop", "remove", "clear", "update", "setdefault", "popitem", "sort", "reverse", "add", "discard", "__setitem__"}
STREAM_NAMES = {"stream", "buf", "out", "fh"}


def functions_of(path):
    with open(os.path.join(REPO, path)) as f:
        tree = ast.parse(f.read())
    out = {}

    def visit(node, prefix):
        for ch in ast.iter_child_nodes(node):
            if isinstance(ch, (ast.FunctionDef, ast.AsyncFunctionDef)):
                out[prefix + ch.name] = ch
            elif isinstance(ch, ast.ClassDef):
                visit(ch, prefix + ch.name + ".")

    visit(tree, "")
    return out


def is_class_expr(node):
    """x.__class__ / type(x): the class object is shared by all parses, whatever x is."""
    if isinstance(node, ast.Attribute) and node.attr == "__class__":
        return True
    return isinstance(node, ast.Call) and isinstance(node.func, ast.Name) and node.func.id == "type" and len(node.args) == 1


def root_name(node):
    while isinstance(node, (ast.Attribute, ast.Subscript)):
        node = node.value
        if is_class_expr(node):
            return "<class>"
    return node.id if isinstance(node, ast.Name) else None


def stores_of(fn):
    """[(lineno, description, root variable name)] for every heap store in the function body (nested defs included)."""
    out = []
    declared_global = set()
    for node in ast.walk(fn):
        if isinstance(node, ast.Global):
            declared_global.update(node.names)
    for node in ast.walk(fn):
        targets = []
        if isinstance(node, ast.Assign):
            targets = node.targets
        elif isinstance(node, (ast.AugAssign, ast.AnnAssign)) and getattr(node, "value", None) is not None:
            targets = [node.target]
        elif isinstance(node, ast.Delete):
            targets = node.targets
        for t in targets:
            for sub in ast.walk(t) if isinstance(t, (ast.Tuple, ast.List)) else [t]:
                if isinstance(sub, (ast.Attribute, ast.Subscript)):
                    out.append((node.lineno, ast.unparse(sub) + " = ...", root_name(sub)))
                elif isinstance(sub, ast.Name) and sub.id in declared_global:
                    out.append((node.lineno, f"global {sub.id} = ...", "<global>"))
        if isinstance(node, ast.Call) and isinstance(node.func, ast.Attribute) and node.func.attr in MUTATORS:
            recv = node.func.value
            if isinstance(recv, (ast.Attribute, ast.Subscript)):
                out.append((node.lineno, ast.unparse(node.func) + "(...)", root_name(recv)))
        if isinstance(node, ast.Call) and isinstance(node.func, ast.Name) and node.func.id == "setattr" and node.args:
            out.append((node.lineno, "setattr(" + ast.unparse(node.args[0]) + ", ...)", root_name(node.args[0])))
    return out


class FrameCase(Case):
    functions = [f"{p}:{q.rstrip(chr(63))}" for p, d in PATH_FUNCS.items() for q in d]

    def __init__(self, path):
        self.path = path
        self.name = f"frame:{path}"

    def body(self, ctx):
        fns = functions_of(self.path)
        for q, roles in PATH_FUNCS[self.path].items():
            optional = q.endswith("?")
            q = q.rstrip("?")
            fn = fns.get(q)
            if fn is None and optional:
                continue  # a method that need not exist (checked when present)
            if fn is None:
                # a function of the parse path disappeared/renamed: its frame is not established
                ctx.ex.obligations.append(__import__("pyvc.ctx").ctx.Obligation(f"{self.name}/{q}/assigns-nothing-shared", "undecided", info="function not found in the working tree"))
                continue
            shared = []
            for lineno, desc, root in stores_of(fn):
                role = roles.get(root)
                if role == "shared" or root in ("<global>", "<class>"):
                    shared.append(f"line {lineno}: {desc}")
                elif role is None and root is not None and root not in STREAM_NAMES:
                    # a local variable: local unless it aliases a shared parameter attribute (x = self.foo; x.append())
                    for node in ast.walk(fn):
                        if isinstance(node, ast.Assign) and any(isinstance(t, ast.Name) and t.id == root for t in node.targets):
                            r2 = root_name(node.value) if isinstance(node.value, (ast.Attribute, ast.Subscript)) else None
                            if is_class_expr(node.value):
                                r2 = "<class>"
                            if r2 is not None and (roles.get(r2) == "shared" or r2 == "<class>"):
                                shared.append(f"line {lineno}: {desc} ({root} aliases {ast.unparse(node.value)})")
            ctx.prove(f"{q}/assigns-nothing-shared", not shared, info="; ".join(shared)[:400] or "no store to a shared receiver")
        ctx.cover("scanned")

    def concretise(self, model, obligation):
        return {"function": obligation.name.split("/")[-2], "stores": obligation.info}


def make_frame(path):
    return FrameCase(path)


def specs():
    return [("contracts.frames", "make_frame", (p,)) for p in PATH_FUNCS]


class GlobalsCase(Case):
    """C14: no function of the package stores to a module global or mutates a module-level container (outside module init)."""

    name = "frame:module-globals"
    functions = ["dissect/cstruct/**/*.py (all functions)"]

    def body(self, ctx):
        import glob

        for path in sorted(glob.glob(os.path.join(REPO, "dissect/cstruct/**/*.py"), recursive=True)):
            rel = os.path.relpath(path, REPO)
            with open(path) as f:
                tree = ast.parse(f.read())
            module_names = set()
            for node in tree.body:
                if isinstance(node, ast.Assign):
                    for t in node.targets:
                        if isinstance(t, ast.Name):
                            module_names.add(t.id)
            bad = []
            for fn in [n for n in ast.walk(tree) if isinstance(n, (ast.FunctionDef, ast.AsyncFunctionDef))]:
                localnames = {a.arg for a in fn.args.args + fn.args.kwonlyargs + fn.args.posonlyargs}
                for node in ast.walk(fn):
                    if isinstance(node, ast.Assign):
                        for t in node.targets:
                            if isinstance(t, ast.Name):
                                localnames.add(t.id)
                for lineno, desc, root in stores_of(fn):
                    if root == "<global>" or (root in module_names and root not in localnames):
                        bad.append(f"{fn.name} line {lineno}: {desc}")
            ctx.prove(f"{rel}/no-store-to-module-level-state", not bad, info="; ".join(bad)[:300] or "none")
        ctx.cover("scanned")


def make_globals():
    return GlobalsCase()
