"""Arithmetic lemmas the engine applies structurally, proved per width by z3 (no induction needed: the chain is unrolled for the
concrete byte count and every link is a small linear query).

  dec(enc(x)) == x   for every x that fits n bytes (signed and unsigned)        [engine: models.dec_int_cached]
  enc(dec(b)) == b   for every n-byte string b                                   [engine: models.enc_int_cached]

with enc(x)_i = (x div 256^i) mod 256 (digit characterisation) and dec(b) = sum b_i 256^i with two's complement.
Links: (L1) nested floor division (x div a) div 256 == x div (256 a); (L2) one positional step
S == d + 256 T with 0 <= d < 256  ==>  S div 256 == T and S mod 256 == d."""
from __future__ import annotations

import z3

from pyvc.harness import Case


class CodecInverse(Case):
    timeout_ms = 120000
    budget_s = 900
    functions = ["pyvc/models.py:dec_int_cached (engine rewrite rule)", "pyvc/models.py:enc_int_cached (engine rewrite rule)"]

    def __init__(self, n, signed):
        self.n, self.signed = n, signed
        self.name = f"lemma:codec-inverse[n={n},{'signed' if signed else 'unsigned'}]"

    def body(self, ctx):
        n, signed = self.n, self.signed
        M = 1 << (8 * n)
        # ---- enc(dec(b)) == b
        bs = [z3.Int(f"b{i}") for i in range(n)]
        for b in bs:
            ctx.assume(z3.And(b >= 0, b <= 255))
        S = [None] * (n + 1)
        S[n] = z3.IntVal(0)
        for k in range(n - 1, -1, -1):
            S[k] = bs[k] + 256 * S[k + 1]
        u = S[0]
        v = z3.If(bs[-1] >= 128, u - M, u) if signed else u
        # the digits of v are the digits of u: v == u (mod 256^n) and digit i only looks at v mod 256^(i+1)
        for k in range(n):
            a = 1 << (8 * k)
            # (L2) S_k div 256 == S_{k+1}, S_k mod 256 == b_k
            ctx.prove(f"enc-dec/step{k}/positional", z3.And(S[k] / 256 == S[k + 1], S[k] % 256 == bs[k]))
            # (L1) u div 256^k == S_k, by the chain: u div 256^(k) = (u div 256^(k-1)) div 256
            if k == 0:
                ctx.prove("enc-dec/step0/base", u / 1 == S[0])
            else:
                q = z3.Int(f"q{k}")
                prev = 1 << (8 * (k - 1))
                ctx.prove(f"enc-dec/step{k}/nested-division", (u / prev) / 256 == u / a)
            # conclusion for digit k, given the chain facts as hypotheses (each proved above)
            hyp = z3.And(u / a == S[k], S[k] % 256 == bs[k])
            if signed:
                # v and u differ by a multiple of 256^n >= 256^(k+1): same digit k
                ctx.prove(f"enc-dec/digit{k}/sign-offset-does-not-change-digits",
                          z3.Implies(hyp, ((u - M) / a) % 256 == (u / a) % 256))
            ctx.prove(f"enc-dec/digit{k}", z3.Implies(hyp, (u / a) % 256 == bs[k]))
        # chain soundness: u div 256^k == S_k follows link by link
        for k in range(1, n):
            a, prev = 1 << (8 * k), 1 << (8 * (k - 1))
            ctx.prove(f"enc-dec/chain{k}", z3.Implies(z3.And(u / prev == S[k - 1], S[k - 1] / 256 == S[k], (u / prev) / 256 == u / a), u / a == S[k]))
        # ---- dec(enc(x)) == x
        x = z3.Int("x")
        lo, hi = (-(M // 2), M // 2 - 1) if signed else (0, M - 1)
        rng = z3.And(x >= lo, x <= hi)
        ds = [(x / (1 << (8 * i))) % 256 for i in range(n)]
        qs = [x / (1 << (8 * i)) for i in range(n + 1)]
        for i in range(n):
            ctx.prove(f"dec-enc/telescope{i}", qs[i] == ds[i] + 256 * qs[i + 1])
        tele = z3.And(*[qs[i] == ds[i] + 256 * qs[i + 1] for i in range(n)])
        ux = z3.Sum([ds[i] * (1 << (8 * i)) for i in range(n)])
        vx = z3.If(ds[-1] >= 128, ux - M, ux) if signed else ux
        ctx.prove("dec-enc/value", z3.Implies(z3.And(rng, tele), vx == x))
        ctx.cover("done")


def make_inverse(n, signed):
    return CodecInverse(n, signed)


def specs(tier="quick"):
    """Quick: every width unsigned, signed up to 6 bytes (the signed 8/16-byte chains take 1-3 minutes: thorough tier)."""
    out = [("contracts.lemmas", "make_inverse", (n, False)) for n in (1, 2, 3, 4, 6, 8, 16)]
    out += [("contracts.lemmas", "make_inverse", (n, True)) for n in ((1, 2, 3, 4, 6) if tier == "quick" else (1, 2, 3, 4, 6, 8, 16))]
    return out
