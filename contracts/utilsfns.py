"""T1 contracts for utils.py integer helpers: pack/unpack/p8..p64/u8..u64/swap*."""
from __future__ import annotations

import z3

from pyvc.ctx import PyRaise
from pyvc.harness import Case
from pyvc.interp import Interp
from pyvc.models import _norm, fits
from pyvc.sym import SBytes, zint
from specs import scalars

import sys

SPELL = {"little": "little", "<": "little", "big": "big", ">": "big", "!": "big", "network": "big", "@": sys.byteorder, "=": sys.byteorder}


class UtilCase(Case):
    functions = ["dissect/cstruct/utils.py:pack", "dissect/cstruct/utils.py:unpack", "dissect/cstruct/utils.py:swap"]
    timeout_ms = 30000

    def __init__(self, which, bits, spelling):
        self.which, self.bits, self.spelling = which, bits, spelling
        self.name = f"utils:{which}[{bits},{spelling}]"

    def body(self, ctx):
        from dissect.cstruct import utils

        it = Interp(ctx)
        n = self.bits // 8
        order = SPELL[self.spelling]
        helper_p = {8: utils.p8, 16: utils.p16, 32: utils.p32, 64: utils.p64}.get(self.bits)
        helper_u = {8: utils.u8, 16: utils.u16, 32: utils.u32, 64: utils.u64}.get(self.bits)
        if self.which == "pack":
            x = z3.Int("x")
            ctx.case_inputs["x"] = x
            for signed in (False, True):
                lo, hi = (-(1 << (self.bits - 1)), (1 << (self.bits - 1)) - 1) if signed else (0, (1 << self.bits) - 1)
                # value that fits the requested width: negative values use two's complement
                xs = z3.Int(f"x_{'s' if signed else 'u'}")
                ctx.assume(z3.And(xs >= lo, xs <= hi))
                for fn, args in ((utils.pack, [xs, self.bits, self.spelling]),) + (((helper_p, [xs, self.spelling]),) if helper_p else ()):
                    try:
                        b = it.call(fn, list(args))
                    except PyRaise as e:
                        ctx.prove(f"{fn.__name__}/{'signed' if signed else 'unsigned'}/accepts-values-that-fit", False, info=e.cls.__name__)
                        continue
                    items = SBytes.of(b).items
                    le = items if order == "little" else list(reversed(items))
                    ctx.prove(f"{fn.__name__}/{'signed' if signed else 'unsigned'}/two's-complement-in-requested-order",
                              len(le) == n and _norm(z3.And(*[scalars.digit(xs, i) == zint(le[i]) for i in range(n)])))
                    for sg in (signed,):
                        r = it.call(utils.unpack, [b, self.bits, self.spelling, sg])
                        ctx.prove(f"{fn.__name__}/{'signed' if signed else 'unsigned'}/unpack-inverts-pack", _norm(zint(r) == xs))
                        if helper_u:
                            r2 = it.call(helper_u, [b, self.spelling, sg])
                            ctx.prove(f"{helper_u.__name__}/{'signed' if signed else 'unsigned'}/inverts", _norm(zint(r2) == xs))
        elif self.which == "pack-odd":
            # widths that are not a multiple of 8: the value occupies ceil(bits / 8) bytes
            xs = z3.Int("x")
            ctx.assume(z3.And(xs >= 0, xs < (1 << self.bits)))
            nb = (self.bits + 7) // 8
            try:
                b = it.call(utils.pack, [xs, self.bits, self.spelling])
            except PyRaise as e:
                ctx.prove("pack/accepts-values-that-fit-an-odd-width", False, info=e.cls.__name__)
                return
            items = SBytes.of(b).items
            le = items if order == "little" else list(reversed(items))
            ctx.prove("pack/odd-width-rounds-up-to-whole-bytes", len(le) == nb and _norm(z3.And(*[scalars.digit(xs, i) == zint(le[i]) for i in range(nb)])), info=f"{len(le)} bytes for {self.bits} bits")
        elif self.which == "unpack":
            bs = [z3.Int(f"b{i}") for i in range(n)]
            for b in bs:
                ctx.assume_byte(b)
            data = SBytes(bs)
            for sg in (False, True):
                v = it.call(utils.unpack, [data, self.bits, self.spelling, sg])
                back = it.call(utils.pack, [v, self.bits, self.spelling])
                ctx.prove(f"pack-inverts-unpack/{'signed' if sg else 'unsigned'}", SBytes.of(back).eq(data))
            try:
                it.call(utils.unpack, [SBytes(bs + [0]), self.bits, self.spelling, False])
                ctx.prove("wrong-length-refused", False)
            except PyRaise as e:
                ctx.prove("wrong-length-refused", e.cls is ValueError)
        elif self.which == "swap":
            x = z3.Int("x")
            ctx.assume(z3.And(x >= 0, x < (1 << self.bits)))
            sw = {16: utils.swap16, 32: utils.swap32, 64: utils.swap64}.get(self.bits)
            y = it.call(utils.swap, [x, self.bits])
            # y is the number whose i-th little-endian byte is byte n-1-i of x (positional form: linear in the digit terms)
            horner = sum((scalars.digit(x, n - 1 - i) * (256 ** i) for i in range(n)), z3.IntVal(0))
            ctx.prove("swap/byte-reversal", _norm(z3.And(zint(y) == horner, zint(y) >= 0, zint(y) < (1 << self.bits))))
            z = it.call(utils.swap, [y, self.bits])
            ctx.prove("swap/twice-is-identity", _norm(zint(z) == x))
            if sw:
                ctx.prove(f"{sw.__name__}/same-as-swap", _norm(zint(it.call(sw, [x])) == zint(y)))
        ctx.cover("done")


def _util_standin(self):
    """Bounded native check of pack/unpack/swap and the fixed-width helpers against a by-hand two's complement (run only
    when the symbolic case was left undecided): boundary values and 200 seeded values per signedness."""
    import random
    import zlib

    from dissect.cstruct import utils

    rnd = random.Random(zlib.crc32(self.name.encode()))
    bits = self.bits
    nb = (bits + 7) // 8
    order = SPELL[self.spelling]
    fails = []
    evals = 0

    def ref_bytes(x):
        le = bytes(((x >> (8 * i)) & 0xFF) for i in range(nb))
        return le if order == "little" else le[::-1]

    vals_u = [0, 1, 2, 127, 128, 255, (1 << bits) - 1, (1 << (bits - 1)), (1 << (bits - 1)) - 1] + [rnd.randrange(1 << bits) for _ in range(200)]
    vals_u = [v for v in vals_u if 0 <= v < (1 << bits)]
    vals_s = [-1, -2, -(1 << (bits - 1)), -(1 << (bits - 1)) + 1] + [-rnd.randrange(1, (1 << (bits - 1)) + 1) for _ in range(100)] if bits >= 8 and bits % 8 == 0 else []
    hp = {8: utils.p8, 16: utils.p16, 32: utils.p32, 64: utils.p64}.get(bits)
    hu = {8: utils.u8, 16: utils.u16, 32: utils.u32, 64: utils.u64}.get(bits)
    for x in vals_u + vals_s:
        evals += 1
        bad = None
        try:
            want = ref_bytes(x)
            if self.which in ("pack", "pack-odd", "unpack"):
                got = utils.pack(x, bits, self.spelling)
                if got != want:
                    bad = f"pack({x}, {bits}, {self.spelling!r}) = {got.hex()}, two's complement is {want.hex()}"
                elif hp and bits % 8 == 0 and hp(x, self.spelling) != want:
                    bad = f"p{bits}({x}, {self.spelling!r}) = {hp(x, self.spelling).hex()}, expected {want.hex()}"
                elif bits % 8 == 0:
                    back = utils.unpack(want, bits, self.spelling, x < 0)
                    if back != x:
                        bad = f"unpack({want.hex()}, {bits}, {self.spelling!r}, {x < 0}) = {back}, expected {x}"
                    elif hu and hu(want, self.spelling, x < 0) != x:
                        bad = f"u{bits}({want.hex()}) = {hu(want, self.spelling, x < 0)}, expected {x}"
            elif self.which == "swap" and x >= 0:
                y = utils.swap(x, bits)
                if y != int.from_bytes(x.to_bytes(nb, "little"), "big") or utils.swap(y, bits) != x:
                    bad = f"swap({x:#x}, {bits}) = {y:#x}"
        except Exception as e:  # noqa: BLE001
            bad = f"raises {type(e).__name__}: {e} for value {x}"
        if bad and len(fails) < 3:
            fails.append({"id": f"x={x}", "inputs": {"value": x, "bits": bits, "endian": self.spelling}, "observed": bad})
    return {"name": f"standin:{self.name}", "bound": _util_standin.__doc__.split(":", 1)[1].strip(), "evaluations": evals, "distinct": evals, "failures": fails}


UtilCase.standin = _util_standin


def make_util(which, bits, spelling):
    return UtilCase(which, bits, spelling)


def specs(tier="quick"):
    out = []
    for bits in ((8, 16, 24, 32) if tier == "quick" else (8, 16, 24, 32, 64)):
        for sp in ("little", "big", "<", ">", "!", "network", "@", "="):
            out.append(("contracts.utilsfns", "make_util", ("pack", bits, sp)))
            out.append(("contracts.utilsfns", "make_util", ("unpack", bits, sp)))
        out.append(("contracts.utilsfns", "make_util", ("swap", bits, "little")))
    for bits in (1, 4, 9, 12, 20, 31, 33):
        for sp in ("little", ">"):
            out.append(("contracts.utilsfns", "make_util", ("pack-odd", bits, sp)))
    return out
