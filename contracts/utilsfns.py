"""T1 contracts for utils.py integer helpers: pack/unpack/p8..p64/u8..u64/swap*."""
from __future__ import annotations

import z3

from pyvc.ctx import PyRaise
from pyvc.harness import Case
from pyvc.interp import Interp
from pyvc.models import _norm, fits
from pyvc.sym import SBytes, zint
from specs import scalars

SPELL = {"little": "little", "<": "little", "big": "big", ">": "big", "!": "big", "network": "big"}


class UtilCase(Case):
    functions = ["dissect/cstruct/utils.py:pack", "dissect/cstruct/utils.py:unpack", "dissect/cstruct/utils.py:swap"]
    timeout_ms = 30000

    def __init__(self, which, bits, spelling):
        self.which, self.bits, self.spelling = which, bits, spelling
        self.name = f"utils:{which}[{bits},{spelling}]"

    def body(self, ctx):
        from dissect.cstruct import utils

        it = Interp(ctx)
        n = self.bits // 8
        order = SPELL[self.spelling]
        helper_p = {8: utils.p8, 16: utils.p16, 32: utils.p32, 64: utils.p64}.get(self.bits)
        helper_u = {8: utils.u8, 16: utils.u16, 32: utils.u32, 64: utils.u64}.get(self.bits)
        if self.which == "pack":
            x = z3.Int("x")
            ctx.case_inputs["x"] = x
            for signed in (False, True):
                lo, hi = (-(1 << (self.bits - 1)), (1 << (self.bits - 1)) - 1) if signed else (0, (1 << self.bits) - 1)
                # value that fits the requested width: negative values use two's complement
                xs = z3.Int(f"x_{'s' if signed else 'u'}")
                ctx.assume(z3.And(xs >= lo, xs <= hi))
                for fn, args in ((utils.pack, [xs, self.bits, self.spelling]),) + (((helper_p, [xs, self.spelling]),) if helper_p else ()):
                    try:
                        b = it.call(fn, list(args))
                    except PyRaise as e:
                        ctx.prove(f"{fn.__name__}/{'signed' if signed else 'unsigned'}/accepts-values-that-fit", False, info=e.cls.__name__)
                        continue
                    items = SBytes.of(b).items
                    le = items if order == "little" else list(reversed(items))
                    ctx.prove(f"{fn.__name__}/{'signed' if signed else 'unsigned'}/two's-complement-in-requested-order",
                              len(le) == n and _norm(z3.And(*[scalars.digit(xs, i) == zint(le[i]) for i in range(n)])))
                    for sg in (signed,):
                        r = it.call(utils.unpack, [b, self.bits, self.spelling, sg])
                        ctx.prove(f"{fn.__name__}/{'signed' if signed else 'unsigned'}/unpack-inverts-pack", _norm(zint(r) == xs))
                        if helper_u:
                            r2 = it.call(helper_u, [b, self.spelling, sg])
                            ctx.prove(f"{helper_u.__name__}/{'signed' if signed else 'unsigned'}/inverts", _norm(zint(r2) == xs))
        elif self.which == "pack-odd":
            # widths that are not a multiple of 8: the value occupies ceil(bits / 8) bytes
            xs = z3.Int("x")
            ctx.assume(z3.And(xs >= 0, xs < (1 << self.bits)))
            nb = (self.bits + 7) // 8
            try:
                b = it.call(utils.pack, [xs, self.bits, self.spelling])
            except PyRaise as e:
                ctx.prove("pack/accepts-values-that-fit-an-odd-width", False, info=e.cls.__name__)
                return
            items = SBytes.of(b).items
            le = items if order == "little" else list(reversed(items))
            ctx.prove("pack/odd-width-rounds-up-to-whole-bytes", len(le) == nb and _norm(z3.And(*[scalars.digit(xs, i) == zint(le[i]) for i in range(nb)])), info=f"{len(le)} bytes for {self.bits} bits")
        elif self.which == "unpack":
            bs = [z3.Int(f"b{i}") for i in range(n)]
            for b in bs:
                ctx.assume_byte(b)
            data = SBytes(bs)
            for sg in (False, True):
                v = it.call(utils.unpack, [data, self.bits, self.spelling, sg])
                back = it.call(utils.pack, [v, self.bits, self.spelling])
                ctx.prove(f"pack-inverts-unpack/{'signed' if sg else 'unsigned'}", SBytes.of(back).eq(data))
            try:
                it.call(utils.unpack, [SBytes(bs + [0]), self.bits, self.spelling, False])
                ctx.prove("wrong-length-refused", False)
            except PyRaise as e:
                ctx.prove("wrong-length-refused", e.cls is ValueError)
        elif self.which == "swap":
            x = z3.Int("x")
            ctx.assume(z3.And(x >= 0, x < (1 << self.bits)))
            sw = {16: utils.swap16, 32: utils.swap32, 64: utils.swap64}.get(self.bits)
            y = it.call(utils.swap, [x, self.bits])
            ctx.prove("swap/byte-reversal", _norm(z3.And(*[scalars.digit(zint(y), i) == scalars.digit(x, n - 1 - i) for i in range(n)], zint(y) >= 0, zint(y) < (1 << self.bits))))
            z = it.call(utils.swap, [y, self.bits])
            ctx.prove("swap/twice-is-identity", _norm(zint(z) == x))
            if sw:
                ctx.prove(f"{sw.__name__}/same-as-swap", _norm(zint(it.call(sw, [x])) == zint(y)))
        ctx.cover("done")


def make_util(which, bits, spelling):
    return UtilCase(which, bits, spelling)


def specs(tier="quick"):
    out = []
    for bits in ((8, 16, 24, 32) if tier == "quick" else (8, 16, 24, 32, 64)):
        for sp in ("little", "big", "<", ">", "!", "network"):
            out.append(("contracts.utilsfns", "make_util", ("pack", bits, sp)))
            out.append(("contracts.utilsfns", "make_util", ("unpack", bits, sp)))
        out.append(("contracts.utilsfns", "make_util", ("swap", bits, "little")))
    for bits in (1, 4, 9, 12, 20, 31, 33):
        for sp in ("little", ">"):
            out.append(("contracts.utilsfns", "make_util", ("pack-odd", bits, sp)))
    return out
