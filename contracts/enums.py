"""T1 contracts for types/enum.py, flag.py: delegation to the underlying type, class-scoped equality."""
from __future__ import annotations

import z3

from pyvc.ctx import PyRaise
from pyvc.harness import Case
from pyvc.interp import Interp
from pyvc.models import _norm, deep_eq
from pyvc.stream import SymStream
from pyvc.sym import SBytes, SEnum, strip, zint


class EnumCase(Case):
    functions = ["dissect/cstruct/types/enum.py:EnumMetaType._read", "dissect/cstruct/types/enum.py:EnumMetaType._write",
                 "dissect/cstruct/types/enum.py:EnumMetaType._read_array", "dissect/cstruct/types/enum.py:EnumMetaType._write_array",
                 "dissect/cstruct/types/enum.py:EnumMetaType.__call__", "dissect/cstruct/types/enum.py:Enum.__eq__",
                 "dissect/cstruct/types/flag.py:Flag.__eq__"]

    def __init__(self, which, endian):
        self.which, self.endian = which, endian
        self.name = f"enum:{which}[{endian}]"

    def body(self, ctx):
        from dissect.cstruct import cstruct

        cs = cstruct(endian=self.endian)
        cs.load("enum E : uint16 { A = 1, B = 2 }; enum E2 : uint16 { A = 1 }; flag F : uint16 { X = 1, Y = 2 }; enum ES : int8 { N = -1 };", compiled=False)
        it = Interp(ctx, unroll=2)
        D = SBytes.fresh("D")
        p = z3.Int("p")
        ctx.assume(p >= 0)
        seg = D.items[0]
        if self.which == "delegation":
            for T in (cs.E, cs.F, cs.ES):
                n = T.type.size
                s = SymStream(ctx, D, p)
                s2 = SymStream(ctx, D, p)
                try:
                    v = it.call(T._read, [s])
                except PyRaise as e:
                    try:
                        it.call(T.type._read, [s2])
                        ctx.prove(f"{T.__name__}/refuses-only-when-underlying-refuses", False)
                    except PyRaise as e2:
                        ctx.prove(f"{T.__name__}/refuses-only-when-underlying-refuses", e.cls is e2.cls)
                    continue
                u = it.call(T.type._read, [s2])
                ctx.prove(f"{T.__name__}/value-is-exactly-the-underlying-integer", isinstance(v, SEnum) and v.cls is T and _norm(zint(v.value) == zint(strip(u))))
                ctx.prove(f"{T.__name__}/consumes-underlying-size", ctx.eq(s.pos, s2.pos))
                out, out2 = SymStream(ctx, SBytes([]), 0), SymStream(ctx, SBytes([]), 0)
                it.call(T._write, [out, v])
                it.call(T.type._write, [out2, u])
                ctx.prove(f"{T.__name__}/dump-writes-the-integer-through-the-underlying-type", out.data.eq(out2.data))
        elif self.which == "arrays":
            T = cs.E
            s = SymStream(ctx, D, p)
            try:
                vs = it.call(T._read_array, [s, 2])
            except PyRaise:
                return
            ctx.prove("array/each-element-wrapped", len(vs) == 2 and all(isinstance(x, SEnum) and x.cls is T for x in vs))
            out, out2 = SymStream(ctx, SBytes([]), 0), SymStream(ctx, SBytes([]), 0)
            it.call(T._write_array, [out, vs])
            it.call(T.type._write_array, [out2, [x.value for x in vs]])
            ctx.prove("array/dump-through-underlying", out.data.eq(out2.data))
            out3 = SymStream(ctx, SBytes([]), 0)
            ctx.assume(z3.And(zint(vs[0].value) != 0, zint(vs[1].value) != 0))
            it.call(T._write_0, [out3, vs])
            ctx.prove("null-terminated/re-appends-one-zero-element", len(out3.data.items) == 6 and out3.data.items[4] == 0 and out3.data.items[5] == 0)
        elif self.which == "equality":
            a, b = z3.Int("a"), z3.Int("b")
            pairs = [(cs.E, cs.E, True), (cs.E, cs.E2, False), (cs.E, cs.F, False), (cs.F, cs.E, False), (cs.F, cs.F, True)]
            for c1, c2, same in pairs:
                r = deep_eq(it, SEnum(c1, a), SEnum(c2, b))
                if same:
                    ctx.prove(f"{c1.__name__}=={c2.__name__}/same-class-iff-values-equal", _norm(r == (a == b)) if not isinstance(r, bool) else False)
                else:
                    ctx.prove(f"{c1.__name__}=={c2.__name__}/never-equal-to-member-of-another-enum", r is False or _norm(z3.Not(r)) is True, info=str(r))
            r = deep_eq(it, SEnum(cs.E, a), b)
            ctx.prove("member==int/iff-values-equal", _norm(r == (a == b)))
        ctx.cover("done")


def make_enum(which, endian):
    return EnumCase(which, endian)
