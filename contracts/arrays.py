"""T1 contracts for BaseArray._read/_write (length resolution) and multi-dimensional nesting."""
from __future__ import annotations

import z3

from pyvc.ctx import PyRaise
from pyvc.fakes import FakeType
from pyvc.harness import Case
from pyvc.interp import Interp
from pyvc.models import _norm
from pyvc.sym import zint


class Recorder:
    """Stands for the element type: records what BaseArray asks it to do."""

    _pyvc_model = True

    def __init__(self):
        self.calls = []

    def _read_array(self, stream, num, context=None):
        self.calls.append(("read_array", num, context))
        return ["<elements>"]

    def _read_0(self, stream, context=None):
        self.calls.append(("read_0", None, context))
        return ["<elements0>"]

    def _write_array(self, stream, data):
        self.calls.append(("write_array", data))
        return 7

    def _write_0(self, stream, data):
        self.calls.append(("write_0", data))
        return 9


class ArrCase(Case):
    functions = ["dissect/cstruct/types/base.py:BaseArray._read", "dissect/cstruct/types/base.py:BaseArray._write",
                 "dissect/cstruct/expression.py:Expression.evaluate", "dissect/cstruct/parser.py:TokenParser._parse_field_type"]

    def __init__(self, which):
        self.which = which
        self.name = f"arrays:{which}"

    def mk(self, cs, num_entries, null_terminated=False, dynamic=False):
        from dissect.cstruct.types.base import Array

        rec = Recorder()
        cls = type("A", (Array,), {"type": rec, "num_entries": num_entries, "null_terminated": null_terminated, "dynamic": dynamic, "cs": cs,
                                   "size": None, "alignment": 1})
        return cls, rec

    def body(self, ctx):
        from dissect.cstruct import cstruct
        from dissect.cstruct.exceptions import ArraySizeError
        from dissect.cstruct.expression import Expression
        from dissect.cstruct.types.base import EOF, BaseArray

        cs = cstruct()
        cs.load("#define K 5\n#define n 9")
        it = Interp(ctx)
        rd = BaseArray._read.__func__
        wr = BaseArray._write.__func__
        if self.which == "length-resolution":
            n = z3.Int("n")
            A, rec = self.mk(cs, n)
            it.call(rd, [A, "S", None])
            k = rec.calls[-1][1]
            ctx.prove("x[n]/holds-max(0,n)", z3.And(zint(k) >= 0, zint(k) >= n, z3.Or(zint(k) == 0, zint(k) == n)))
            # expression over earlier fields, falling back to constants; context wins over constants
            m = z3.Int("m")
            A, rec = self.mk(cs, Expression(cs, "m * 2 + K"), dynamic=True)
            it.call(rd, [A, "S", {"m": m}])
            k = rec.calls[-1][1]
            e = m * 2 + 5
            ctx.prove("x[expr]/max(0,expr)-over-context-then-constants", z3.And(zint(k) >= 0, zint(k) >= e, z3.Or(zint(k) == 0, zint(k) == e)))
            A, rec = self.mk(cs, Expression(cs, "n + 1"), dynamic=True)
            it.call(rd, [A, "S", {"n": m}])
            k = rec.calls[-1][1]
            ctx.prove("x[expr]/context-shadows-constant", z3.Or(z3.And(m + 1 >= 0, zint(k) == m + 1), z3.And(m + 1 < 0, zint(k) == 0)))
            it.call(rd, [A, "S", {}])
            ctx.prove("x[expr]/constant-used-when-not-in-context", rec.calls[-1][1] == 10)
            A, rec = self.mk(cs, None, null_terminated=True)
            r = it.call(rd, [A, "S", {"q": 1}])
            ctx.prove("x[]/delegates-to-null-terminated-reader", rec.calls[-1][0] == "read_0" and r == ["<elements0>"])
            A, rec = self.mk(cs, Expression(cs, "EOF"), dynamic=True)
            it.call(rd, [A, "S", {}])
            ctx.prove("x[EOF]/to-end-of-stream", rec.calls[-1][1] == EOF)
            A, rec = self.mk(cs, Expression(cs, "EOF"), dynamic=True)
            it.call(rd, [A, "S", {"EOF": m}])
            k = rec.calls[-1][1]
            ctx.prove("x[EOF]/a-field-named-EOF-is-an-ordinary-count", z3.And(zint(k) >= 0, z3.Or(zint(k) == 0, zint(k) == m)))
            A, rec = self.mk(cs, Expression(cs, "undefined_name + 1"), dynamic=True)
            try:
                it.call(rd, [A, "S", {}])
                ctx.prove("x[expr]/evaluation-failure-propagates", False)
            except PyRaise as e2:
                ctx.prove("x[expr]/evaluation-failure-propagates", not rec.calls, info=e2.cls.__name__)
        elif self.which == "sentinel":
            # the EOF sentinel is negative, so max(0, count) can never produce it
            n = z3.Int("n")
            A, rec = self.mk(cs, n)
            it.call(rd, [A, "S", None])
            ctx.prove("legitimate-count-never-equals-EOF-sentinel", zint(rec.calls[-1][1]) != EOF)
            ctx.prove("sentinel-negative", EOF < 0)
        elif self.which == "write-size-check":
            from pyvc.sym import SArr, SBytes

            ln = z3.Int("len")
            ctx.assume(ln >= 0)
            data = SArr("B", SBytes([]), ln, "<")
            A, rec = self.mk(cs, 3)
            try:
                r = it.call(wr, [A, "S", data])
                ctx.prove("static/accepts-only-declared-length", ln == 3)
                ctx.prove("static/delegates", rec.calls[-1][0] == "write_array" and r == 7)
            except PyRaise as e:
                ctx.prove("static/refuses-other-lengths", z3.And(ln != 3, e.cls is ArraySizeError))
            A, rec = self.mk(cs, Expression(cs, "q"), dynamic=True)
            r = it.call(wr, [A, "S", data])
            ctx.prove("dynamic/any-length", rec.calls[-1][0] == "write_array")
            A, rec = self.mk(cs, None, null_terminated=True, dynamic=True)
            r = it.call(wr, [A, "S", data])
            ctx.prove("null-terminated/delegates-to-write_0", rec.calls[-1][0] == "write_0" and r == 9)
            # character arrays: no size check (as stated)
            from dissect.cstruct.types.char import CharArray
            from pyvc.stream import SymStream

            CA = cs.char[4]
            out = SymStream(ctx, SBytes([]), 0)
            it.call(CharArray._write.__func__, [CA, out, SBytes([1, 2])])
            ctx.prove("char-array/no-size-check", len(out.data.items) == 2)
        elif self.which == "c-order":
            from dissect.cstruct.parser import TokenParser

            tp = TokenParser(cs)
            for decl, dims in (("x[2][3]", [2, 3]), ("x[4][1][2]", [4, 1, 2]), ("x[2]", [2]), ("*x[2][3]", [2, 3])):
                t, name, bits = it.call(TokenParser._parse_field_type, [tp, cs.uint8, decl])
                got = []
                tt = t
                while hasattr(tt, "num_entries"):
                    got.append(tt.num_entries)
                    tt = tt.type
                ctx.prove(f"{decl}/outermost-dimension-first", got == dims and name == "x", info=f"{got}")
                if decl.startswith("*"):
                    from dissect.cstruct.types import Pointer

                    ctx.prove(f"{decl}/array-of-pointers", issubclass(tt, Pointer))
            t, _, _ = it.call(TokenParser._parse_field_type, [tp, cs.uint8, "x[a+1][2]"])
            ctx.prove("x[expr][2]/outer-dynamic-inner-static", t.dynamic and t.type.num_entries == 2)
        ctx.cover("done")


def make_arr(which):
    return ArrCase(which)
