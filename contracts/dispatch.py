"""C09: input dispatch (MetaType.__call__/read/reads, cstruct.read, StructureMetaType.__call__) and _is_eof (T1)."""
from __future__ import annotations

import io

import z3

from pyvc.ctx import PyRaise
from pyvc.harness import Case
from pyvc.interp import Interp
from pyvc.models import _norm
from pyvc.stream import SymStream
from pyvc.sym import SBytes, zint


class DispatchCase(Case):
    functions = ["dissect/cstruct/types/base.py:MetaType.__call__", "dissect/cstruct/types/base.py:MetaType.read",
                 "dissect/cstruct/types/base.py:MetaType.reads", "dissect/cstruct/cstruct.py:cstruct.read",
                 "dissect/cstruct/types/structure.py:StructureMetaType.__call__", "dissect/cstruct/types/structure.py:UnionMetaType.__call__",
                 "dissect/cstruct/types/base.py:_is_eof"]

    def __init__(self, which):
        self.which = which
        self.name = f"dispatch:{which}"

    def body(self, ctx):
        from dissect.cstruct import cstruct
        from dissect.cstruct.types import base
        from dissect.cstruct.types.base import MetaType

        endian = self.which.split(":")[1] if ":" in self.which else "<"
        cs = cstruct(endian=endian)
        cs.load("struct S { uint16 a; uint8 b; }; union U { uint16 w; uint8 h[2]; }; struct C { char c[3]; };"
                "enum E16s : int16 { NEG = -2, POS = 5 }; enum E24 : int24 { N24 = -2 }; flag F8 : uint8 { X = 1 };", compiled=False)
        it = Interp(ctx)
        if self.which == "is_eof":
            D = SBytes.fresh("D")
            p = z3.Int("p")
            ctx.assume(p >= 0)
            s = SymStream(ctx, D, p)
            r = it.call(base._is_eof, [s])
            L = D.length()
            if r:
                ctx.prove("reports-eof-only-at-or-after-the-end", _norm(zint(p) >= zint(L)))
            else:
                ctx.prove("reports-not-eof-only-before-the-end", _norm(zint(p) < zint(L)))
            ctx.prove("position-restored", ctx.eq(s.pos, p))
            ctx.cover("done")
            return
        long_data = bytes([0x81, 0x02, 0xF3, 0x84, 0x05, 0xFE, 0xFF, 0x88, 0x09, 0x8A, 0x0B, 0x8C, 0x0D, 0x8E, 0x0F, 0x90, 0x11, 0xFE, 0xFF, 0x80, 0x21, 0x22, 0xA3, 0x24, 0x25, 0xA6, 0x27, 0x28, 0xA9, 0x2A, 0x2B])
        cases = [(t, long_data) for t in ("S", "U", "C", "uint16", "int24", "uint48", "int128", "E16s", "E24", "F8", "int8", "char", "wchar")]
        # a buffer of exactly the type's size (shortcuts keyed on len(x) == sizeof(T)), sign bit set
        cases += [(t, long_data[5 : 5 + cs.resolve(t).size]) for t in ("S", "U", "C", "uint16", "int24", "uint48", "int128", "E16s", "E24", "F8", "int8", "char", "wchar")]
        for tname, data in cases:
            T = cs.resolve(tname)
            want = None
            tname_ = f"{tname}[{len(data)}B]"
            for kind, mk in (("bytes", lambda: data), ("bytearray", lambda: bytearray(data)), ("memoryview", lambda: memoryview(data)), ("stream", lambda: io.BytesIO(data))):
                forms = {
                    "T(x)": lambda x: it.call(type(T).__call__, [T, x]),
                    "T.read(x)": lambda x: it.call(MetaType.read, [T, x]),
                    "cs.read(name,x)": lambda x: it.call(cstruct.read, [cs, tname, x]),
                }
                if kind != "stream":
                    forms["T.reads(x)"] = lambda x: it.call(MetaType.reads, [T, x])
                for form, fn in forms.items():
                    try:
                        v = fn(mk())
                        got = _show(v)
                        if len(data) == T.size:
                            # a buffer of exactly the size of a structure whose only member is a char array is taken as that
                            # member's value by T(x) (documented shortcut): same value, but no parse bookkeeping (_sizes)
                            got = (got[0], None)
                    except PyRaise as e:
                        got = f"raises {e.cls.__name__}"
                    if want is None:
                        want = got
                    ctx.prove(f"{tname_}/{kind}/{form}/same-result", got == want, info=f"{got} vs {want}")
            # ... and that result is the standard decoding in the current byte order (not just self-consistent)
            if tname in ("uint16", "int24", "uint48", "int128", "int8", "E16s", "E24", "F8"):
                base_t = T.type if hasattr(T, "__members__") else T
                n = base_t.size
                exp = int.from_bytes(data[:n], "little" if endian == "<" else "big", signed=bool(getattr(base_t, "signed", False)) or base_t.__name__.startswith("int"))
                ctx.prove(f"{tname_}/standard-decoding", want is not None and _as_int(want) == exp, info=f"{want} expected {exp}")
        # the byte order that counts is the one current at the call: the same buffer parsed again after cs.endian changed
        # is decoded in the new byte order (buffers, call forms and repeated use included)
        other = ">" if endian == "<" else "<"
        for tname in ("uint16", "int24", "uint48", "int128", "E16s", "E24", "wchar", "S"):
            T = cs.resolve(tname)
            n = T.size
            data = long_data[5 : 5 + n]
            first = {}
            for form, fn in (("T(x)", lambda x: it.call(type(T).__call__, [T, x])), ("T.reads(x)", lambda x: it.call(MetaType.reads, [T, x])),
                             ("T.read(x)", lambda x: it.call(MetaType.read, [T, x]))):
                try:
                    first[form] = _show(fn(data))[0]
                except PyRaise as e:
                    first[form] = f"raises {e.cls.__name__}"
            cs.endian = other
            try:
                for form, fn in (("T(x)", lambda x: it.call(type(T).__call__, [T, x])), ("T.reads(x)", lambda x: it.call(MetaType.reads, [T, x])),
                                 ("T.read(x)", lambda x: it.call(MetaType.read, [T, x]))):
                    try:
                        got = _show(fn(data))[0]
                    except PyRaise as e:
                        got = f"raises {e.cls.__name__}"
                    fresh = cstruct(endian=other)
                    fresh.load("struct S { uint16 a; uint8 b; }; enum E16s : int16 { NEG = -2, POS = 5 }; enum E24 : int24 { N24 = -2 };", compiled=False)
                    want2 = _show(fresh.resolve(tname)(data))[0]
                    ctx.prove(f"{tname}/{form}/follows-a-byte-order-switch", got == want2, info=f"{got} expected {want2} (before the switch: {first[form]})")
            finally:
                cs.endian = endian
        ctx.cover("done")


def _as_int(shown):
    v = shown[0]
    while isinstance(v, tuple) and v and v[0] in ("enum", "int", "BaseType", "Generic"):
        v = v[-1]
    return v


def _show(v):
    from runtime.sig import repr_value

    try:
        sizes = tuple(sorted(getattr(v, "_sizes", {}).items())) if hasattr(v, "_sizes") else None
    except Exception:  # noqa: BLE001
        sizes = None
    return (repr_value(v), sizes)


def make_dispatch(which):
    return DispatchCase(which)
