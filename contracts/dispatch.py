"""C09: input dispatch (MetaType.__call__/read/reads, cstruct.read, StructureMetaType.__call__) and _is_eof (T1)."""
from __future__ import annotations

import io

import z3

from pyvc.ctx import PyRaise
from pyvc.harness import Case
from pyvc.interp import Interp
from pyvc.models import _norm
from pyvc.stream import SymStream
from pyvc.sym import SBytes, zint


class DispatchCase(Case):
    functions = ["dissect/cstruct/types/base.py:MetaType.__call__", "dissect/cstruct/types/base.py:MetaType.read",
                 "dissect/cstruct/types/base.py:MetaType.reads", "dissect/cstruct/cstruct.py:cstruct.read",
                 "dissect/cstruct/types/structure.py:StructureMetaType.__call__", "dissect/cstruct/types/structure.py:UnionMetaType.__call__",
                 "dissect/cstruct/types/base.py:_is_eof"]

    def __init__(self, which):
        self.which = which
        self.name = f"dispatch:{which}"

    def body(self, ctx):
        from dissect.cstruct import cstruct
        from dissect.cstruct.types import base
        from dissect.cstruct.types.base import MetaType

        cs = cstruct()
        cs.load("struct S { uint16 a; uint8 b; }; union U { uint16 w; uint8 h[2]; }; struct C { char c[3]; };", compiled=False)
        it = Interp(ctx)
        if self.which == "is_eof":
            D = SBytes.fresh("D")
            p = z3.Int("p")
            ctx.assume(p >= 0)
            s = SymStream(ctx, D, p)
            r = it.call(base._is_eof, [s])
            L = D.length()
            if r:
                ctx.prove("reports-eof-only-at-or-after-the-end", _norm(zint(p) >= zint(L)))
            else:
                ctx.prove("reports-not-eof-only-before-the-end", _norm(zint(p) < zint(L)))
            ctx.prove("position-restored", ctx.eq(s.pos, p))
            ctx.cover("done")
            return
        data = b"\x01\x02\x03\x04\x05"
        for tname in ("S", "U", "C", "uint16"):
            T = cs.resolve(tname)
            want = None
            for kind, mk in (("bytes", lambda: data), ("bytearray", lambda: bytearray(data)), ("memoryview", lambda: memoryview(data)), ("stream", lambda: io.BytesIO(data))):
                forms = {
                    "T(x)": lambda x: it.call(type(T).__call__, [T, x]),
                    "T.read(x)": lambda x: it.call(MetaType.read, [T, x]),
                    "cs.read(name,x)": lambda x: it.call(cstruct.read, [cs, tname, x]),
                }
                if kind != "stream":
                    forms["T.reads(x)"] = lambda x: it.call(MetaType.reads, [T, x])
                for form, fn in forms.items():
                    try:
                        v = fn(mk())
                        got = _show(v)
                    except PyRaise as e:
                        got = f"raises {e.cls.__name__}"
                    if want is None:
                        want = got
                    ctx.prove(f"{tname}/{kind}/{form}/same-result", got == want, info=f"{got} vs {want}")
        ctx.cover("done")


def _show(v):
    from runtime.sig import repr_value

    try:
        sizes = tuple(sorted(getattr(v, "_sizes", {}).items())) if hasattr(v, "_sizes") else None
    except Exception:  # noqa: BLE001
        sizes = None
    return (repr_value(v), sizes)


def make_dispatch(which):
    return DispatchCase(which)
