"""C17: the generated method templates (text) and their installation (code-object patching)."""
from __future__ import annotations

import ast

from pyvc.harness import Case


def text_of(maker):
    """The innermost wrapped function: the one that returns the template text for a list of field names."""
    f = maker
    while hasattr(f, "__wrapped__"):
        f = f.__wrapped__
    return f


class TplCase(Case):
    functions = ["dissect/cstruct/types/structure.py:_make__eq__", "dissect/cstruct/types/structure.py:_make__bool__",
                 "dissect/cstruct/types/structure.py:_make__hash__", "dissect/cstruct/types/structure.py:_make_structure__init__",
                 "dissect/cstruct/types/structure.py:_make_union__init__", "dissect/cstruct/types/structure.py:_patch_attributes",
                 "dissect/cstruct/types/structure.py:_generate_structure__init__"]

    def __init__(self, n):
        self.n = n
        self.name = f"templates[n={n}]"

    def body(self, ctx):
        from pyvc.sym import Unsupported

        try:
            self._body(ctx)
        except (AttributeError, IndexError, TypeError, KeyError) as e:
            # the generated text no longer has the shape this (syntactic) contract knows: undecided, never a verdict;
            # the semantic stand-in below then exercises the installed methods
            raise Unsupported(f"template text has another shape than the contract expects: {type(e).__name__}: {e}") from None

    def standin(self):
        """Bounded semantic check of the installed __eq__/__hash__/__bool__/__init__ (run when the shape contract is
        undecided): structures of n uint8/uint16 fields, instance pairs before and after assignments."""
        from dissect.cstruct import cstruct

        n = max(self.n, 1)
        cs = cstruct()
        cs.load("struct inner { uint8 x; uint8 y; }; struct T { " + " ".join(f"uint{8 if i % 2 else 16} f{i};" for i in range(n)) + " inner nest; };")
        T = cs.T
        fails = []
        evals = 0

        def chk(ident, cond, what):
            nonlocal evals
            evals += 1
            if not cond and len(fails) < 3:
                fails.append({"id": ident, "inputs": {"fields": n}, "observed": what})

        for k in range(n):
            vals = {f"f{i}": (i * 7 + 3) % 200 for i in range(n)}
            a, b = T(**vals), T(**vals)
            ha = hash(a)
            chk(f"eq{k}", a == b and hash(a) == hash(b), "equal field values: == or hash differ")
            chk(f"bool{k}", bool(a) is True and bool(T()) is False, "bool(a) / bool(T())")
            setattr(a, f"f{k}", 201)
            chk(f"ne{k}", a != b, f"after a.f{k} = 201: still equal to the old value")
            setattr(b, f"f{k}", 201)
            chk(f"eq-after{k}", a == b and hash(a) == hash(b), f"after the same assignment to both (hash(a) was taken before): == {a == b}, hashes {hash(a)} {hash(b)} (before {ha})")
            hb = hash(b)
            b.nest.x = 9
            a.nest.x = 9
            chk(f"nested{k}", a == b and hash(a) == hash(b), f"after the same nested assignment to both: == {a == b}, hashes equal {hash(a) == hash(b)} (hash(b) before {hb})")
            chk(f"reparse{k}", T(a.dumps()) == a and hash(T(a.dumps())) == hash(a), "parse of dumps(a): == or hash differ")
        return {"name": f"standin:{self.name}", "bound": TplCase.standin.__doc__.split(":", 1)[1].strip(), "evaluations": evals, "distinct": evals, "failures": fails}

    def _body(self, ctx):
        from dissect.cstruct.types import structure as S

        n = self.n
        names = [f"_{i}" for i in range(n)]
        # ---- __eq__
        t = ast.parse(text_of(S._make__eq__)(names)).body[0]
        ok = isinstance(t, ast.FunctionDef) and t.name == "__eq__" and [a.arg for a in t.args.args] == ["self", "other"]
        body = t.body
        iff = body[0] if body and isinstance(body[0], ast.If) else None
        same_cls = iff is not None and ast.unparse(iff.test) == "self.__class__ is other.__class__"
        ret = iff.body[0] if iff and iff.body and isinstance(iff.body[0], ast.Return) else None
        cmp_ok = False
        if ret is not None and isinstance(ret.value, ast.Compare) and len(ret.value.ops) == 1 and isinstance(ret.value.ops[0], ast.Eq):
            l, r = ret.value.left, ret.value.comparators[0]
            cmp_ok = (isinstance(l, ast.Tuple) and isinstance(r, ast.Tuple) and [ast.unparse(e) for e in l.elts] == [f"self.{x}" for x in names]
                      and [ast.unparse(e) for e in r.elts] == [f"other.{x}" for x in names])
        other_false = len(body) == 2 and isinstance(body[1], ast.Return) and ast.unparse(body[1].value) == "False"
        ctx.prove("__eq__/same-class-and-fieldwise-tuple-equality-in-order", bool(ok and same_cls and cmp_ok and other_false))
        # ---- __bool__
        t = ast.parse(text_of(S._make__bool__)(names)).body[0]
        r = t.body[0]
        okb = (t.name == "__bool__" and isinstance(r, ast.Return) and isinstance(r.value, ast.Call) and ast.unparse(r.value.func) == "any"
               and isinstance(r.value.args[0], ast.List) and [ast.unparse(e) for e in r.value.args[0].elts] == [f"self.{x}" for x in names])
        ctx.prove("__bool__/any-over-all-fields", bool(okb))
        # ---- __hash__
        t = ast.parse(text_of(S._make__hash__)(names)).body[0]
        r = t.body[0]
        arg = r.value.args[0] if isinstance(r, ast.Return) and isinstance(r.value, ast.Call) and r.value.args else None
        elts = [ast.unparse(e) for e in arg.elts] if isinstance(arg, ast.Tuple) else ([ast.unparse(arg)] if (arg is not None and n == 1) else None)
        okh = t.name == "__hash__" and ast.unparse(r.value.func) == "hash" and (elts == [f"self.{x}" for x in names] or (n == 0 and isinstance(arg, ast.Tuple) and not arg.elts))
        if n == 1 and not isinstance(arg, ast.Tuple):
            # hash((self._0)) is the hash of the single field, not of a 1-tuple: still a function of the field values
            okh = t.name == "__hash__" and elts == ["self._0"]
        ctx.prove("__hash__/function-of-the-field-tuple", bool(okh))
        # ---- __init__ (structure and union)
        for maker, setter in ((S._make_structure__init__, "attr"), (S._make_union__init__, "object.__setattr__")):
            t = ast.parse(text_of(maker)(names)).body[0]
            args = [a.arg for a in t.args.args]
            defaults_none = all(isinstance(d, ast.Constant) and d.value is None for d in t.args.defaults) and len(t.args.defaults) == n
            ok_sig = t.name == "__init__" and args == ["self", *names] and defaults_none
            ok_body = True
            if n == 0:
                ok_body = len(t.body) == 1 and isinstance(t.body[0], ast.Pass)
            else:
                ok_body = len(t.body) == n
                for i, (st, nm) in enumerate(zip(t.body, names)):
                    want_val = f"{nm} if {nm} is not None else {i}"
                    if setter == "attr":
                        ok_body = ok_body and isinstance(st, ast.Assign) and ast.unparse(st.targets[0]) == f"self.{nm}" and ast.unparse(st.value) == want_val
                    else:
                        ok_body = ok_body and isinstance(st, ast.Expr) and ast.unparse(st.value) == f"object.__setattr__(self, '{nm}', {want_val})"
            ctx.prove(f"{text_of(maker).__name__}/binds-arguments-in-order-None-selects-ith-constant", bool(ok_sig and ok_body))
        # ---- installation: patched code objects are the template with names / constants substituted
        real = [f"field{i}x" for i in range(n)]
        for gen, tpl, start in ((S._generate__eq__, S._make__eq__, 1), (S._generate__bool__, S._make__bool__, 1), (S._generate__hash__, S._make__hash__, 1)):
            f = gen(real)
            t = tpl(n)
            same = f.__code__.co_code == t.__code__.co_code and f.__code__.co_consts == t.__code__.co_consts
            tn, fn = t.__code__.co_names, f.__code__.co_names
            mapped = len(tn) == len(fn) and all((a == b) if i < start else (b == real[names.index(a)] if a in names else a == b) for i, (a, b) in enumerate(zip(tn, fn)))
            ctx.prove(f"{gen.__name__}/is-the-template-with-field-names-substituted", bool(same and mapped), info=f"{tn} -> {fn}")
            ctx.prove(f"{gen.__name__}/template-not-mutated", tpl(n) is t and all(x in names or not x.startswith("field") for x in t.__code__.co_names))
        from dissect.cstruct import cstruct

        cs = cstruct()
        fields = [S.Field(real[i], cs.uint8 if i % 2 else cs.uint16[2]) for i in range(n)]
        for gen, tpl in ((S._generate_structure__init__, S._make_structure__init__), (S._generate_union__init__, S._make_union__init__)):
            f = gen(fields)
            t = tpl(n)
            code_same = f.__code__.co_code == t.__code__.co_code
            varnames = f.__code__.co_varnames == ("self", *real)
            consts = f.__code__.co_consts
            defaults_ok = consts[0] is None and (len(consts) >= 1 + n)
            ctx.prove(f"{gen.__name__}/template-code-with-field-names-and-defaults", bool(code_same and varnames and defaults_ok and f.__defaults__ == t.__defaults__))
        ctx.cover("done")


def make_tpl(n):
    return TplCase(n)
