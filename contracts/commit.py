"""C18: commit()/_update_fields recompute every derived attribute (T1 on the real text)."""
from __future__ import annotations

from pyvc.ctx import PyRaise
from pyvc.harness import Case
from pyvc.interp import Interp

DERIVED = {"fields", "lookup", "__fields__", "__bool__", "__init__", "__eq__", "__hash__", "size", "alignment", "dynamic"}


class CommitCase(Case):
    functions = ["dissect/cstruct/types/structure.py:StructureMetaType.commit", "dissect/cstruct/types/structure.py:StructureMetaType._update_fields",
                 "dissect/cstruct/types/structure.py:StructureMetaType.add_field", "dissect/cstruct/types/structure.py:StructureMetaType.start_update"]

    def __init__(self, which):
        self.which = which
        self.name = f"commit[{['interpreted', 'compiled', 'stale-poisoned'][which]}]"

    def body(self, ctx):
        from dissect.cstruct import compiler, cstruct
        from dissect.cstruct.types.structure import Structure, StructureMetaType

        cs = cstruct()
        cs.load("struct S { uint8 a; };", compiled=(self.which >= 1))
        S = cs.S
        it = Interp(ctx)
        if self.which == 2:
            # poison every derived attribute with stale nonsense: commit must overwrite all of them
            for k in DERIVED - {"__fields__"}:
                try:
                    setattr(S, k, "STALE")
                except Exception:  # noqa: BLE001
                    pass
        it.call(StructureMetaType.add_field, [S, "b", cs.uint32])
        d = it.call(StructureMetaType._update_fields, [S, S.__fields__, S.__align__])
        ctx.prove("update_fields/returns-every-derived-attribute", DERIVED <= set(d), info=str(sorted(DERIVED - set(d))))
        if self.which >= 1:
            ctx.prove("update_fields/recompiles-when-compiled", "_read" in d and d.get("__compiled__") is True and getattr(d["_read"].__func__, "__source__", None) is not None)
        ctx.prove("commit/installs-recomputed-attributes", all(getattr(S, k) != "STALE" for k in DERIVED))
        ctx.prove("commit/size-and-lookup-reflect-the-new-field", S.size == 5 and list(S.fields) == ["a", "b"] and S.fields["b"].offset == 1)
        src = getattr(getattr(S._read, "__func__", None), "__source__", "") or ""
        if self.which >= 1:
            ctx.prove("commit/compiled-reader-regenerated-for-the-new-field", '"b"' in src)
        v = S(b"\x01\x02\x00\x00\x00")
        ctx.prove("commit/instance-behaviour-follows", int(v.b) == 2 and S(a=1, b=2) == v and bool(S()) is False)
        ctx.cover("done")


def make_commit(i):
    return CommitCase(i)
