"""T1 contracts for expression.py: tables, evaluate_exp step, precedence, unary-minus rewrite."""
from __future__ import annotations

import z3

from pyvc.ctx import PyRaise
from pyvc.harness import Case
from pyvc.interp import Interp
from pyvc.models import _norm
from pyvc.sym import zint

C_PRECEDENCE = [["*", "/", "%"], ["+", "-"], ["<<", ">>"], ["&"], ["^"], ["|"]]  # high to low


class ExprCase(Case):
    functions = ["dissect/cstruct/expression.py:Expression.evaluate_exp", "dissect/cstruct/expression.py:Expression.precedence",
                 "dissect/cstruct/expression.py:Expression.evaluate"]

    def __init__(self, which):
        self.which = which
        self.name = f"expr:{which}"

    def body(self, ctx):
        from dissect.cstruct import cstruct
        from dissect.cstruct.exceptions import ExpressionParserError
        from dissect.cstruct.expression import Expression

        cs = cstruct()
        it = Interp(ctx)
        if self.which == "tables":
            lv = Expression.precedence_levels
            for hi, grp in enumerate(C_PRECEDENCE):
                for op in grp:
                    ctx.prove(f"precedence/{op}/same-level-as-its-C-group", all(lv[op] == lv[o] for o in grp))
                    for lo_grp in C_PRECEDENCE[hi + 1:]:
                        for o2 in lo_grp:
                            ctx.prove(f"precedence/{op}-binds-tighter-than-{o2}", lv[op] > lv[o2])
            unary = [k for k in Expression.unary_operators]
            for uo in unary:
                ctx.prove(f"precedence/unary-{uo}-tighter-than-binary", all(lv[uo] > lv[b] for b in Expression.binary_operators))
            ctx.prove("binary-operator-set", set(Expression.binary_operators) == {"|", "^", "&", "<<", ">>", "+", "-", "*", "/", "%"})
            ctx.prove("unary-operator-count", len(unary) == 2 and "~" in unary)
            ctx.prove("unary-marker-cannot-be-an-identifier", all(not (k.isidentifier()) for k in unary), info=str(unary))
            a, b = z3.Int("a"), z3.Int("b")
            ctx.assume(z3.And(a >= 0, b >= 1, b <= 64))
            ops = Expression.binary_operators
            ctx.prove("op/+", _norm(zint(it.call(ops["+"], [a, b])) == a + b))
            ctx.prove("op/-", _norm(zint(it.call(ops["-"], [a, b])) == a - b))
            ctx.prove("op/*", _norm(zint(it.call(ops["*"], [a, b])) == a * b))
            q = it.call(ops["/"], [a, b])
            r = it.call(ops["%"], [a, b])
            ctx.prove("op//-and-%-are-C-division-on-non-negative-operands", z3.And(zint(q) * b + zint(r) == a, zint(r) >= 0, zint(r) < b))
            for x in (0, 1, 5, 0xF0, 12345):
                for y in (0, 1, 3, 4, 0x3C):
                    ctx.prove(f"op/bitwise/{x},{y}", (ops["|"](x, y), ops["^"](x, y), ops["&"](x, y), ops["<<"](x, y % 9), ops[">>"](x, y % 9)) == (x | y, x ^ y, x & y, x << (y % 9), x >> (y % 9)))
            un = Expression.unary_operators
            neg = [k for k in un if k != "~"][0]
            ctx.prove("unary/minus", _norm(zint(it.call(un[neg], [a])) == -a))
            ctx.prove("unary/complement", _norm(zint(it.call(un["~"], [a])) == -a - 1))
        elif self.which == "evaluate_exp":
            un = [k for k in Expression.unary_operators if k != "~"][0]
            x, y, z = z3.Int("x"), z3.Int("y"), z3.Int("z")
            ctx.assume(z3.And(y >= 1, y <= 32, x >= 0))
            for op, expect in (("-", y - z if False else None),):
                pass
            table = {"+": lambda l, r: l + r, "-": lambda l, r: l - r, "*": lambda l, r: l * r}
            for op, f in table.items():
                e = Expression(cs, "1")
                self._set(e, ["(", op], [z, x, y])
                self._step(it, e)
                st, qu = self._get(e)
                ctx.prove(f"binary {op}/pops-one-operator", st == ["("])
                ctx.prove(f"binary {op}/left-is-second-from-top-right-is-top", len(qu) == 2 and qu[0] is z and _norm(zint(qu[1]) == f(x, y)))
            e = Expression(cs, "1")
            self._set(e, ["/"], [x, y])
            self._step(it, e)
            st, qu = self._get(e)
            ctx.prove("binary //operand-order", z3.And(zint(qu[0]) * y <= x, x < (zint(qu[0]) + 1) * y))
            e = Expression(cs, "1")
            self._set(e, ["<<", ">>"], [x, y])
            self._step(it, e)
            st, qu = self._get(e)
            ctx.prove("binary >>/operand-order", st == ["<<"] and z3.And(zint(qu[0]) * zint(ctx.pow2(y)) <= x, x < (zint(qu[0]) + 1) * zint(ctx.pow2(y))))
            e = Expression(cs, "1")
            self._set(e, ["+", un], [x, y])
            self._step(it, e)
            st, qu = self._get(e)
            ctx.prove("unary/replaces-only-the-top-operand", st == ["+"] and len(qu) == 2 and qu[0] is x and _norm(zint(qu[1]) == -y))
            for stack, queue, nm in ((["+"], [x], "binary-with-one-operand"), (["~"], [], "unary-without-operand"), (["*"], [], "binary-without-operand")):
                e = Expression(cs, "1")
                self._set(e, list(stack), list(queue))
                try:
                    self._step(it, e)
                    ctx.prove(f"missing-operands/{nm}/refused", False)
                except PyRaise as ex:
                    ctx.prove(f"missing-operands/{nm}/refused", ex.cls is ExpressionParserError)
        elif self.which == "precedence":
            e = Expression(cs, "1")
            lv = Expression.precedence_levels
            ops = list(Expression.binary_operators)
            for a in ops:
                for b in ops:
                    r = it.call(Expression.precedence, [e, a, b])
                    ctx.prove(f"precedence({a},{b})", r == (lv[a] >= lv[b]))
            # left associativity: equal levels pop
            ctx.prove("equal-level-pops (left associativity)", all(it.call(Expression.precedence, [e, a, a]) for a in ops))
        elif self.which == "rewrite-idempotent":
            # evaluating twice gives the same token list as evaluating once (the in-place '-' rewrite is idempotent), and the
            # scratch state is re-initialised: results do not depend on what is left in stack/queue
            for s in ("-3 + 4", "2 - -3", "(-1)", "~-1 * - 2", "1 - (2 - 3) - -4", "a - 1", "-a"):
                e = Expression(cs, s)
                t0 = list(e.tokens)
                v1 = it.call(Expression.evaluate, [e, {"a": 7}])
                t1 = list(e.tokens)
                self._poison(e)
                v2 = it.call(Expression.evaluate, [e, {"a": 7}])
                t2 = list(e.tokens)
                ctx.prove(f"{s!r}/rewrite-idempotent", t1 == t2)
                ctx.prove(f"{s!r}/same-result-after-poisoned-scratch-state", v1 == v2)
                ctx.prove(f"{s!r}/rewrite-only-touches-minus", all(a == b or a == "-" for a, b in zip(t0, t1)) and len(t0) == len(t1))
        ctx.cover("done")

    # the scratch state lives on the object before the D8 repair and in locals after it: support both shapes
    def _set(self, e, stack, queue):
        e.stack, e.queue = stack, queue
        self._args = (stack, queue)

    def _step(self, it, e):
        from dissect.cstruct.expression import Expression
        import inspect

        params = list(inspect.signature(Expression.evaluate_exp).parameters)
        if len(params) >= 3:
            it.call(Expression.evaluate_exp, [e, self._args[0], self._args[1]])
        else:
            it.call(Expression.evaluate_exp, [e])

    def _get(self, e):
        from dissect.cstruct.expression import Expression
        import inspect

        params = list(inspect.signature(Expression.evaluate_exp).parameters)
        if len(params) >= 3:
            return self._args
        return e.stack, e.queue

    def _poison(self, e):
        if hasattr(e, "stack"):
            e.stack = ["*", "(", "+"]
        if hasattr(e, "queue"):
            e.queue = [99, 98]


def make_expr(which):
    return ExprCase(which)


class ExprShapes(Case):
    """The whole evaluator on a *fixed token sequence* with SYMBOLIC identifier values: the real Expression.evaluate is
    interpreted and its result term is proved equal to the reference (precedence-climbing) term for all values.
    Token sequences are enumerated (bounded over shapes, unbounded over values)."""

    functions = ["dissect/cstruct/expression.py:Expression.evaluate", "dissect/cstruct/expression.py:Expression.evaluate_exp"]
    timeout_ms = 20000

    def __init__(self, exprs, idx):
        self.exprs = exprs
        self.name = f"expr:shapes[{idx}]"

    def body(self, ctx):
        import z3 as _z3

        from dissect.cstruct import cstruct
        from dissect.cstruct.expression import Expression
        from pyvc import models
        from specs import expr as ref
        import ast as _ast

        cs = cstruct()
        cs.load("#define K 6\nstruct S { uint8 a; uint32 b; };")
        it = Interp(ctx)
        x, y, z = _z3.Int("x"), _z3.Int("y"), _z3.Int("z")
        ctx.assume(_z3.And(x >= 0, y >= 1, z >= 1, y <= 64, z <= 1000))
        env = {"x": x, "y": y, "z": z}
        opmap = {"*": _ast.Mult, "/": _ast.FloorDiv, "%": _ast.Mod, "+": _ast.Add, "-": _ast.Sub, "<<": _ast.LShift, ">>": _ast.RShift,
                 "&": _ast.BitAnd, "|": _ast.BitOr, "^": _ast.BitXor}

        def apply_op(op, a, b):
            return models.binop(it, opmap[op](), a, b)

        def neg(v):
            return models.binop(it, _ast.Sub(), 0, v)

        def inv(v):
            return models.binop(it, _ast.Sub(), models.binop(it, _ast.Sub(), 0, v), 1)

        for s in self.exprs:
            try:
                want = ref.evaluate(s, env, cs.consts, lambda n: len(cs.resolve(n)), apply_op=apply_op, neg=neg, inv=inv)
            except Exception as e:  # noqa: BLE001 - outside the modelled operator subset
                continue
            e = Expression(cs, s)
            try:
                got = it.call(Expression.evaluate, [e, dict(env)])
            except PyRaise as ex:
                ctx.prove(f"{s!r}/evaluates", False, info=f"raised {ex.cls.__name__}")
                continue
            ctx.prove(f"{s!r}/equals-C-precedence-value-for-all-x,y,z", _norm(zint(got) == zint(want)))
            got2 = it.call(Expression.evaluate, [e, dict(env)])
            ctx.prove(f"{s!r}/repeatable", _norm(zint(got2) == zint(want)))
        ctx.cover("done")


def shape_specs(tier="quick"):
    import itertools

    ops = ["*", "/", "%", "+", "-", "<<", ">>"]
    atoms = ["x", "y", "z", "3", "K"]
    exprs = []
    for o1, o2 in itertools.product(ops, repeat=2):
        exprs.append(f"x {o1} y {o2} z")
        exprs.append(f"x {o1} (y {o2} z)")
        exprs.append(f"-x {o1} y {o2} ~z")
        exprs.append(f"K {o1} 3 {o2} y")
    for o1, o2, o3 in itertools.product(["*", "+", "-", "/", "<<"], repeat=3):
        exprs.append(f"x {o1} y {o2} z {o3} 2")
        if tier != "quick":
            exprs.append(f"(x {o1} y) {o2} (z {o3} 2)")
    for a in atoms:
        for u in ("-", "~", "--", "-~", "~-"):
            exprs.append(f"{u}{a}")
            exprs.append(f"2 * {u}{a} + 1")
    exprs += ["x & 7", "(x + y) & 0xFF", "x % y & 3", "sizeof(S) * x + y", "x + sizeof(uint16) * 2", "x >> 2 << 2", "x & 0xF0 >> 4"]
    chunks = [exprs[i::16] for i in range(16)]
    return [("contracts.exprs", "make_shapes", (c, i)) for i, c in enumerate(chunks) if c]


def make_shapes(exprs, idx):
    return ExprShapes(exprs, idx)
