"""vf command line: check <ID> [--tier quick|thorough], replay <file>, selftest."""
from __future__ import annotations

import argparse
import importlib
import json
import os
import sys
import traceback


def _repo_on_path():
    repo = os.environ.get("VERIF_REPO", "/repo")
    if repo not in sys.path:
        sys.path.insert(0, repo)
    import dissect.cstruct

    f = dissect.cstruct.__file__
    if not f.startswith(repo + "/"):
        print(f"checker error: dissect.cstruct imported from {f}, expected {repo}", file=sys.stderr)
        sys.exit(3)


def main(argv=None):
    ap = argparse.ArgumentParser(prog="vf")
    sub = ap.add_subparsers(dest="cmd", required=True)
    c = sub.add_parser("check")
    c.add_argument("prop")
    c.add_argument("--tier", default=os.environ.get("VERIF_TIER", "quick"), choices=["quick", "thorough"])
    r = sub.add_parser("replay")
    r.add_argument("file")
    sub.add_parser("selftest")
    args = ap.parse_args(argv)
    _repo_on_path()
    if args.cmd == "check":
        seed = int(os.environ.get("VERIF_SEED", "0") or 0)
        try:
            from pyvc import crosscheck

            errs = crosscheck.run(seed)
            if errs:
                print("checker error: the engine's encoding disagrees with CPython:\n  " + "\n  ".join(errs[:10]), file=sys.stderr)
                return 3
            mod = importlib.import_module(f"checks.{args.prop}")
            rep = mod.run(args.tier, seed)
            code = rep.finish()
        except SystemExit:
            raise
        except Exception:  # noqa: BLE001
            traceback.print_exc()
            print(f"checker error in {args.prop}", file=sys.stderr)
            return 3
        return code
    if args.cmd == "replay":
        from checks import replay

        return replay.main(args.file)
    if args.cmd == "selftest":
        from checks import selftest

        return selftest.main()
    return 2


if __name__ == "__main__":
    sys.exit(main())
