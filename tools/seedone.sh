#!/bin/bash
# usage: seedone.sh <seed> <prop>   -> runs check on scratch worktree, keeps output dir
S=/verif/seeded/$1
W=/dev/shm/vf-one-wt
git -C /repo worktree remove --force $W 2>/dev/null
git -C /repo worktree add -q --detach $W HEAD && git -C $W apply $S/patch.diff
cd /verif && VERIF_REPO=$W VERIF_OUT=/dev/shm/vf-one-out ./vf check $2 2>&1 | grep -v conda | tail -4
git -C /repo worktree remove --force $W
