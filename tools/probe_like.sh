#!/bin/bash
# Runs every check's quick command the way the acceptance probe does: offline environment, VERIF_SEED=1,
# evidence file removed first; then validates each rewritten evidence file (schema, level vs MANIFEST, counts).
# usage: tools/probe_like.sh [logdir] [ids...]
cd "$(dirname "$0")/.."
LOG=${1:-/dev/shm/probe_like}; shift
mkdir -p "$LOG"
export CARGO_NET_OFFLINE=true GOPROXY=off PIP_NO_INDEX=1 VERIF_SEED=1 VERIF_TIER=quick
./setup.sh || { echo "setup failed"; exit 3; }
IDS=${@:-$(.venv/bin/python -c "import json; print(' '.join(c['property_id'] for c in json.load(open('MANIFEST.json'))['checks']))")}
bad=0
for id in $IDS; do
  cmd=$(.venv/bin/python -c "import json,sys; print([c['quick_cmd'] for c in json.load(open('MANIFEST.json'))['checks'] if c['property_id']==sys.argv[1]][0])" $id)
  rm -f evidence/$id.json
  s=$(date +%s)
  bash -c "$cmd" > "$LOG/$id.log" 2>&1
  rc=$?
  e=$(( $(date +%s) - s ))
  v=$(grep -c "^VIOLATION" "$LOG/$id.log")
  ev=$(.venv/bin/python tools/check_evidence.py $id 2>&1)
  echo "$id exit=$rc violations=$v wall=${e}s evidence: $ev"
  [ $rc -ne 0 ] || [ "$v" != 0 ] || [[ "$ev" != ok* ]] && bad=1
done
exit $bad
