#!/usr/bin/env python3
"""Writes MANIFEST.json from the table below (run from /verif)."""
import json

T1 = "contract-based deductive verification: VCs generated from the real source text by a symbolic interpreter (pyvc), discharged by z3 (cvc5 for unknowns)"
CHECKS = {
    "C01": ("proof", "T1: leaf codec contracts (all byte counts and data, incl. LEB128 loops with invariants, rejection of values that do not fit); T2: per definition of family F, for all data, parse(dumps(v) ++ R) == v and consumes len(dumps(v)), both readers", "§5 C01",
            T1 + "; per-definition symbolic execution of the real reader/writer text (family F is a stated bound over programs)"),
    "C02": ("proof", "T2: per definition, for all accepted inputs: dump length == consumed, output == input on every data-carrying bit of the reference mask, zero elsewhere (fixed-size), piecewise rope comparison for variable-size definitions", "§5 C02", T1 + "; per-definition symbolic execution with an independent layout/mask reference"),
    "C03": ("translation_validation", "per generated program: interpreted reader text and generated reader text executed symbolically on the same symbolic stream; all path pairs must agree on values, sizes, position and refusal; fallback on generator failure proved on the real text of Compiler.compile/_update_fields", "§5 C03", "translation validation of the generated reader against the interpreted reader by relational symbolic execution + SMT"),
    "C04": ("proof", "T1: loop body of _calculate_size_and_offsets == reference step for an arbitrary member from an arbitrary invariant state (induction over the field list), union layout, type table vs C ABI, _make_array/_make_pointer/sizeof; T2: library layout == independent reference, consumed == dumped == len(T)", "§5 C04", T1 + " with an inductive loop invariant; finite tables by evaluation"),
    "C05": ("proof", "T1 per scalar type and byte order (switched after creation and after a native warm-up): standard decoding/encoding, LEB128 against the recursive canonical definition; tables; T2: compiled readers follow a switched byte order", "§5 C05", T1),
    "C06": ("proof", "T1 (bit-vector mode): BitBuffer.read/write/flush against spec_bits for every (unit width, consumed, width, byte order, signedness) with symbolic unit contents; unit allocation step of the layout loop; T2 per bit-field program", "§5 C06", T1 + " (bit-vector encoding for BitBuffer)"),
    "C07": ("proof", "T1: BaseArray length resolution and size check, _read_array for every symbolic count, _read_0 for every length by induction (Packed, Int, Char, Wchar), _write_0, C order of dimensions, _make_array over call histories; T2 per array program", "§5 C07", T1 + "; data-dependent element loops unrolled to a stated bound in T2"),
    "C08": ("proof", "T1: every leaf reader and BitBuffer.read under the weak stream contract (any short read or fault) return only on full delivery, array entry points return only when the bytes were available; T2: per definition no short read is accepted, premature end raises EOFError, a longer input with the same prefix takes the same path and gives the same value", "§5 C08", T1 + " under a weak (fault-injecting) stream contract"),
    "C09": ("proof", "T2: per definition, reads stay inside [p, end), parsing the window D[p:] from 0 gives the same value/sizes and end == p + encoded size (== p + len(T) for fixed-size types); T1: input-kind/call-form dispatch, positions after _read_0/_read_array; kinds x call forms matrix executed (bounded)", "§5 C09", T1 + "; relational symbolic execution at symbolic start offsets"),
    "C10": ("other", "T1: operator/precedence tables == C table, each operator == C operation, evaluate_exp step (operand order), rewrite idempotence; the 'for every token sequence' clause is a bounded comparison with an independent precedence-climbing reference", "§5 C10", "contracts on the evaluator's steps and tables (proved) + bounded exhaustive comparison against a reference evaluator (labelled bounded)"),
    "C11": ("other", "T1 union layout; T2 per union program: consumes len(U), each member == parse of its type from the union bytes, round trip; assignment histories against a byte-buffer model: bounded", "§5 C11", "layout/coherence contracts proved per union program; assignment histories bounded"),
    "C12": ("other", "T1: enum read/write delegation to the underlying type, class-scoped equality on symbolic values; value preservation through Python's enum machinery and auto-numbering: bounded exhaustive (8-bit storage)", "§5 C12", "delegation/equality contracts proved; enum-machinery clauses bounded exhaustive"),
    "C13": ("other", "T1: resolve/add_type contracts; lexical clauses (comments, whitespace at C-token boundaries, definition order) bounded: reference comment stripper exhaustive over short strings, signature equality under insertions and permutations", "§5 C13", "alias-resolution contracts proved; regex-based lexical clauses bounded (no solver theory for Python re)"),
    "C14": ("other", "frame obligations from the AST (no shared store on the parse/dump path, no store to module state); default freshness, cstruct independence and parse purity over histories: bounded", "§5 C14", "frame (assigns) obligations discharged syntactically on the real source; object-machinery clauses bounded"),
    "C15": ("other", "sufficient condition proved as frame obligations (no type-level scratch state on the parse/dump path); the interleaving quantifier rests on a commutation meta-argument; failed frames are replayed as single-preemption schedules", "§5 C15", "frame obligations on the real source + systematic single-preemption schedule exploration (bounded) as replay"),
    "C16": ("proof", "T1: Pointer._read/_write/dereference/arithmetic/null contracts for every pointer width and byte order with symbolic stream contents; T2 pointer programs, compiled == interpreted", "§5 C16", T1),
    "C17": ("other", "T1 on the generated template text (AST shape for n fields) and its installation (code-object comparison); T2: single-field assignment changes exactly that field's bytes for all contents; instance-pair equivalences bounded", "§5 C17", "template/installation contracts and assignment locality proved; instance-pair clauses bounded"),
    "C18": ("other", "T1: commit/_update_fields recompute and reinstall every derived attribute (real text, incl. recompilation); equality with the one-shot class over all batchings: bounded exhaustive", "§5 C18", "commit contracts proved on the real text; batching equivalence bounded exhaustive"),
    "C19": ("other", "T1: pack/unpack/pN/uN/swap contracts for all eight byte-order spellings and widths 8-32 (64 thorough), odd widths; hexdump/dumpstruct: bounded exhaustive against a dump parser", "§5 C19", "integer-helper contracts proved; string builders bounded"),
    "C20": ("exploration", "bounded exploration only: ast.parse of the stub, declared names and field hints against the loaded definitions", "§5 C20", "no contract within reach decides 'valid Python text': bounded exploration of definition sets (stated as such)"),
}
NOTES = {
    "C01": "trusted: z3/cvc5, pyvc itself, definitions of int.from_bytes/to_bytes and struct for ints, floats/UTF-16 opaque, BytesIO axioms, instance construction by CPython; family F bounds the programs; data-dependent loops unrolled to 2 in T2; a case left undecided triggers its bounded native stand-in (refutes only)",
}
DEFAULT_NOTE = "trusted base: z3 (cvc5 fallback) and the pyvc VC generator; CPython builtins by definition/axiom (int.from_bytes/to_bytes, struct, BytesIO, enum, floats and UTF-16 opaque); quantifier over definitions covered by the enumerated family F only; bounded stand-ins are labelled in the evidence and never counted as proved (a case left undecided on some tree triggers its bounded native stand-in, which can only refute)"

checks = []
for pid, (cat, text, ref, tech) in CHECKS.items():
    checks.append({
        "property_id": pid,
        "quick_cmd": f"./vf check {pid} --tier quick",
        "thorough_cmd": f"./vf check {pid} --tier thorough",
        "evidence_file": f"evidence/{pid}.json",
        "replay_cmd_template": "./vf replay {path}",
        "engine": "pyvc",
        "level_claimed": {"category": cat, "text": text, "design_ref": ref},
        "level_note": NOTES.get(pid, DEFAULT_NOTE),
        "technique": tech,
    })
m = {
    "version": 1,
    "setup_cmd": "./setup.sh",
    "hooks": {
        "guard": "DISSECT_CSTRUCT_VERIF",
        "enable": "no hooks in /repo: contracts are sidecar files under /verif/contracts; the checks import dissect.cstruct from /repo's working tree and re-read its source with ast on every run",
        "baseline_off_cmd": "cd /repo && /venv/bin/python -m pytest -q -p no:cacheprovider",
        "source_commits": [],
        "add_only": True,
    },
    "engines": [{"name": "pyvc", "path": "pyvc/", "serves_properties": list(CHECKS),
                 "kind_free_text": "self-built contract verifier for Python: symbolic interpreter over the AST of the real source (and of generated reader text), loop invariants, function summaries, SMT back ends z3/cvc5; runtime/ holds the bounded stand-ins"}],
    "checks": checks,
    "notes": "See DESIGN.md. Fix commits in /repo repair genuine defects found by these checks; known_findings.json lists the recorded ones.",
    "not_applicable": [],
}
json.dump(m, open("MANIFEST.json", "w"), indent=1)
print("checks:", len(checks))
