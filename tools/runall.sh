#!/bin/bash
cd /verif
for p in "$@"; do
  ( /usr/bin/time -f "%e s" ./vf check $p > /dev/shm/log_$p.txt 2>&1; echo "exit $?" >> /dev/shm/log_$p.txt )
done
