import sys, os, json
sys.path.insert(0, os.environ.get("VERIF_REPO","/repo")); sys.path.insert(0,'/verif')
from pyvc.harness import run_cases
mod, fn = sys.argv[1], sys.argv[2]
args = tuple(json.loads(a) for a in sys.argv[3:])
for r in run_cases([(mod, fn, args)]):
    c = {"proved":0,"failed":0,"undecided":0}
    for o in r["obligations"]: c[o["status"]]+=1
    print(r["case"], c, r["paths"], r["wall_s"], r["undecided_reasons"], (r["error"] or "")[-1500:])
    for f in r["failures"][:4]: print("    FAIL", f["obligation"], f["info"], f["inputs"], str(f["replay"])[:300])
    if r.get("standin"): print("   standin", r["standin"]["evaluations"], r["standin"]["failures"][:2])
