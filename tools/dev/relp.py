import sys, os
sys.path.insert(0, os.environ.get("VERIF_REPO","/repo")); sys.path.insert(0,'/verif')
from t2.family import Program
from pyvc.harness import run_cases
progs=[Program(k,"!",a,pointer=pn) for pn in ("uint16","uint24","uint48") for k in (["ptr"],["a_ptr_2"],["u8","ptr","u16"]) for a in (False,True)]
specs=[("t2.cases","make_rel",(p.to_json(),)) for p in progs]+[("t2.cases","make_pipe",(p.to_json(),c,["C01","C02","C04"])) for p in progs for c in (False,True)]
for r in run_cases(specs):
    c = {"proved":0,"failed":0,"undecided":0}
    for o in r["obligations"]: c[o["status"]]+=1
    if c["failed"] or c["undecided"] or r["error"]:
      print(r["case"], c, r["undecided_reasons"], (r["error"] or "")[-400:])
      for f in r["failures"][:1]: print("    FAIL", f["obligation"], f["info"], f["inputs"], str(f["replay"])[:300])
print(len(specs))
