import sys, time, json; sys.path.insert(0,'/verif')
from t2.family import *
from pyvc.harness import run_cases
kinds = sys.argv[1].split(',')
progs = enumerate_programs(kinds, int(sys.argv[2]))
t=time.time()
res = run_cases([("t2.cases","make_rel",(p.to_json(),)) for p in progs], jobs=int(sys.argv[3]) if len(sys.argv)>3 else None)
tot = {"proved":0,"failed":0,"undecided":0}
for r in res:
    c = {"proved":0,"failed":0,"undecided":0}
    for o in r["obligations"]: c[o["status"]]+=1; tot[o["status"]]+=1
    if r["error"] or c["failed"] or c["undecided"]:
        print(r["case"], c, r["paths"], r["wall_s"], r["undecided_reasons"], (r["error"] or "")[-600:])
        for f in r["failures"][:2]: print("    FAIL", f["obligation"], f["info"], f["inputs"], f["replay"])
print(len(progs), tot, round(time.time()-t,1))
