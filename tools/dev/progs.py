import sys, time, json, os
sys.path.insert(0, os.environ.get("VERIF_REPO","/repo")); sys.path.insert(0,'/verif')
from t2 import sets
from pyvc.harness import run_cases
progs = getattr(sets, sys.argv[1])()
specs = [("t2.cases","make_rel",(p.to_json(),)) for p in progs] + [("t2.cases","make_pipe",(p.to_json(),c,["C01","C02","C04","C08","C09"])) for p in progs for c in (False,True)]
t=time.time()
tot = {"proved":0,"failed":0,"undecided":0}
for r in run_cases(specs):
    c = {"proved":0,"failed":0,"undecided":0}
    for o in r["obligations"]: c[o["status"]]+=1; tot[o["status"]]+=1
    if r["error"] or c["failed"] or c["undecided"]:
        print(r["case"], c, r["paths"], r["wall_s"], r["undecided_reasons"], (r["error"] or "")[-600:])
        for f in r["failures"][:2]: print("    FAIL", f["obligation"], f["info"], f["inputs"], str(f["replay"])[:300])
print(len(progs), tot, round(time.time()-t,1))
