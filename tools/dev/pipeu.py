import sys, time, json, os
sys.path.insert(0, os.environ.get("VERIF_REPO","/repo")); sys.path.insert(0,'/verif')
from t2.family import Program
from pyvc.harness import run_cases
props=sys.argv[2].split(',')
progs=[Program(k.split(','),e,a,union=True) for k in sys.argv[1].split('/') for e in "<>" for a in (False,True)]
specs=[("t2.cases","make_pipe",(p.to_json(),c,props)) for p in progs for c in (False,True)]
for r in run_cases(specs):
    c = {"proved":0,"failed":0,"undecided":0}
    for o in r["obligations"]: c[o["status"]]+=1
    if c["failed"] or c["undecided"] or r["error"]:
      print(r["case"], c, r["paths"], r["wall_s"], r["undecided_reasons"], (r["error"] or "")[-600:])
      for f in r["failures"][:2]: print("    FAIL", f["obligation"], f["info"], f["inputs"], str(f["replay"])[:300])
print(len(specs))
