#!/bin/bash
# usage: verify_seed.sh <seed dir>  -> prints status line
S=$1
W=/tmp/wt-verify
cd $W && git checkout -q -- . && git clean -fdq
if ! git apply --check $S/patch.diff 2>/dev/null; then echo "$S: PATCH-DOES-NOT-APPLY"; exit; fi
PYTHONPATH=$W /venv/bin/python $S/demo.py >/dev/null 2>&1; base=$?
git apply $S/patch.diff
t=$(PYTHONPATH=$W /venv/bin/python -m pytest -q -p no:cacheprovider tests 2>&1 | tail -1)
PYTHONPATH=$W /venv/bin/python $S/demo.py >/dev/null 2>&1; mut=$?
git checkout -q -- . && git clean -fdq
echo "$S: demo-unpatched=$base demo-patched=$mut tests: $t"
