#!/usr/bin/env python3
"""Markdown table of the seeded changes and the checks that catch them (from seeded/RESULTS*.json)."""
import glob
import json
import os
import sys

VERIF = os.path.dirname(os.path.dirname(os.path.abspath(__file__)))


def load(name):
    p = os.path.join(VERIF, "seeded", name)
    return json.load(open(p)) if os.path.exists(p) else {}


# round 1: seeds that the property's own check did not report on its first run (the checks were strengthened afterwards)
ROUND1_MISSED_AT_FIRST = {
    "C03-bitunit-enum-overcount", "C06-compiled-substruct-no-bit-reset", "C08-bitfield-unit-partial-read", "C11-rebuild-skip-unchanged",
    "C11-proxify-skip-nested-union", "C13-defs-split-space-before-comma", "C14-anon-member-default-shared", "C17-copy-defaults-folded-fields",
    "C16-charptr-block-read-truncate", "C19-hexdump-prefix-template", "C19-pack-width-rounding", "C20-enum-typedef-alias-lost",
    "C20-multidim-nested-inline",
}
# round 2: first-run exits that were 1 only because of a false alarm of the check itself (corrected, DESIGN section 11)
ROUND2_FALSE_CATCH = {"C03-r2-nested-char-array-packed"}


def main():
    final = load("RESULTS.json")
    first = {}
    first.update(load("RESULTS.round1.json"))
    first.update(load("RESULTS.round2.initial.json"))
    first.update(load("RESULTS.round3.initial.json"))
    first.update(load("RESULTS.round4.initial.json"))
    rows = []
    for d in sorted(glob.glob(os.path.join(VERIF, "seeded", "*", "meta.json"))):
        seed = os.path.basename(os.path.dirname(d))
        meta = json.load(open(d))
        prop = meta["property"]
        fin = final.get(seed, {})
        own = (fin.get("checks") or {}).get(prop, {})
        caught = fin.get("caught_by", [])
        ini = first.get(seed, {})
        ini_own = ((ini.get("checks") or {}).get(prop) or {}).get("exit")
        how = "-"
        if own:
            how = f"exit {own.get('exit')}, {own.get('violations')} VIOLATION lines, {own.get('with_reproduced_input')} with a replayed input"
        files = ",".join(os.path.basename(f) for f in meta.get("files", []))
        if "-r2-" in seed or "-r3-" in seed or "-r4-" in seed:
            first_run = "caught" if (ini_own == 1 and seed not in ROUND2_FALSE_CATCH) else "missed at first"
        else:
            first_run = "missed at first" if seed in ROUND1_MISSED_AT_FIRST else "caught"
        rows.append((seed, prop, files, ", ".join(caught) or "**missed**", how, first_run))
    print("| seeded change | property | file | caught by | own check | first run |")
    print("|---|---|---|---|---|---|")
    for r in rows:
        print("| " + " | ".join(str(x) for x in r) + " |")
    print()
    print(f"{len(rows)} seeded changes; caught by their own property's check: {sum(1 for r in rows if r[1] in r[3])}; still missed: {[r[0] for r in rows if '**' in r[3]]}; "
          f"caught on the first run: {sum(1 for r in rows if r[5] == 'caught')}")


if __name__ == "__main__":
    sys.exit(main())
