#!/usr/bin/env python3
"""Markdown table of the seeded changes and the checks that catch them (from seeded/RESULTS*.json)."""
import glob
import json
import os
import sys

VERIF = os.path.dirname(os.path.dirname(os.path.abspath(__file__)))


def load(name):
    p = os.path.join(VERIF, "seeded", name)
    return json.load(open(p)) if os.path.exists(p) else {}


def main():
    final = load("RESULTS.json")
    first = {}
    first.update(load("RESULTS.round1.json"))
    first.update(load("RESULTS.round2.initial.json"))
    rows = []
    for d in sorted(glob.glob(os.path.join(VERIF, "seeded", "*", "meta.json"))):
        seed = os.path.basename(os.path.dirname(d))
        meta = json.load(open(d))
        prop = meta["property"]
        fin = final.get(seed, {})
        own = (fin.get("checks") or {}).get(prop, {})
        caught = fin.get("caught_by", [])
        ini = first.get(seed, {})
        ini_own = ((ini.get("checks") or {}).get(prop) or {}).get("exit")
        how = "-"
        if own:
            how = f"exit {own.get('exit')}, {own.get('violations')} VIOLATION lines, {own.get('with_reproduced_input')} with a replayed input"
        files = ",".join(os.path.basename(f) for f in meta.get("files", []))
        rows.append((seed, prop, files, ", ".join(caught) or "**missed**", how, "caught" if ini_own == 1 else ("missed at first" if ini_own == 0 else "n/a")))
    print("| seeded change | property | file | caught by | own check | first run |")
    print("|---|---|---|---|---|---|")
    for r in rows:
        print("| " + " | ".join(str(x) for x in r) + " |")
    print()
    print(f"{len(rows)} seeded changes; caught by their own property's check: {sum(1 for r in rows if r[1] in r[3])}; missed: {[r[0] for r in rows if 'missed' in r[3] and '**' in r[3]]}")


if __name__ == "__main__":
    sys.exit(main())
