"""Validate evidence/<id>.json the way the acceptance probe reads it: schema, level against MANIFEST, counts."""
import json
import os
import sys

import jsonschema

V = os.path.dirname(os.path.dirname(os.path.abspath(__file__)))
pid = sys.argv[1]
path = os.path.join(V, "evidence", f"{pid}.json")
if not os.path.exists(path):
    print("evidence file not rewritten")
    sys.exit(1)
ev = json.load(open(path))
probs = []
try:
    jsonschema.validate(ev, json.load(open("/root/.vp/EVIDENCE.schema.json")))
except jsonschema.ValidationError as e:
    probs.append("schema: " + e.message[:200])
man = json.load(open(os.path.join(V, "MANIFEST.json")))
chk = [c for c in man["checks"] if c["property_id"] == pid][0]
cat = chk["level_claimed"]["category"]
if ev.get("level") != cat:
    probs.append(f"level is {ev.get('level')!r} but MANIFEST level_claimed.category is {cat!r}")
cov = ev.get("coverage", {})
if cat == "proof" and cov.get("discharged") != cov.get("obligations"):
    probs.append(f"coverage.discharged ({cov.get('discharged')}) != obligations ({cov.get('obligations')})")
notes = []
if cov.get("undecided"):
    # an open obligation invalidates a proof-level record; at the other levels it is reported, not a fault of the record
    (probs if cat == "proof" else notes).append(f"undecided={cov.get('undecided')}: {[u['obligation'] for u in cov.get('undecided_samples', [])]}")
if cov.get("cases_given_a_further_attempt"):
    notes.append(f"further attempts: {[(c['case'], c['attempts'], c['open_after_last_attempt']) for c in cov['cases_given_a_further_attempt']]}")
if ev.get("violations"):
    probs.append(f"violations={ev['violations']}")
print("; ".join(probs) if probs else "ok" + ("".join(" [note: " + n + "]" for n in notes)))
sys.exit(1 if probs else 0)
