#!/usr/bin/env python3
"""Run checks against the seeded breaking changes.

Default mode follows the brief literally: apply the patch to /repo (git apply), run the check(s), undo
(git checkout -- .). With --scratch the patch is applied to a scratch worktree under /dev/shm and the checks
run against it through VERIF_REPO (handy while other runs use /repo). Evidence/replays of these runs are
redirected to a scratch directory so that the committed evidence is never overwritten by a mutated tree.

usage: tools/run_seeds.py [--scratch] [--only SUBSTR] [--props C01,C03]   (from /verif)
"""
import argparse
import json
import os
import re
import subprocess
import sys
import tempfile

VERIF = os.path.dirname(os.path.dirname(os.path.abspath(__file__)))
RELATED = {
    "C01": ["C01", "C02", "C06"], "C02": ["C02", "C01"], "C03": ["C03"], "C04": ["C04"], "C05": ["C05", "C01"], "C06": ["C06", "C03", "C01"],
    "C07": ["C07", "C01"], "C08": ["C08", "C03"], "C09": ["C09", "C11"], "C10": ["C10"], "C11": ["C11"], "C12": ["C12"], "C13": ["C13"],
    "C14": ["C14"], "C15": ["C15", "C14"], "C16": ["C16"], "C17": ["C17"], "C18": ["C18"], "C19": ["C19"], "C20": ["C20"],
}


def sh(cmd, **kw):
    return subprocess.run(cmd, shell=True, capture_output=True, text=True, **kw)


def main():
    ap = argparse.ArgumentParser()
    ap.add_argument("--scratch", action="store_true")
    ap.add_argument("--only", default="")
    ap.add_argument("--props", default="")
    ap.add_argument("--tier", default="quick")
    ap.add_argument("--own", action="store_true", help="only the check of the seed's own property")
    ap.add_argument("--out", default="", help="results file name under seeded/ (default RESULTS.json / RESULTS.partial.json)")
    args = ap.parse_args()
    seeds = sorted(d for d in os.listdir(os.path.join(VERIF, "seeded")) if args.only in d and os.path.isdir(os.path.join(VERIF, "seeded", d)))
    results = {}
    out_dir = tempfile.mkdtemp(prefix="vf-seedout-", dir="/dev/shm")
    for s in seeds:
        sd = os.path.join(VERIF, "seeded", s)
        meta = json.load(open(os.path.join(sd, "meta.json")))
        prop = meta["property"]
        props = args.props.split(",") if args.props else ([prop] if args.own else RELATED.get(prop, [prop]))
        patch = os.path.join(sd, "patch.diff")
        env = dict(os.environ, VERIF_OUT=out_dir)
        if args.scratch:
            wt = tempfile.mkdtemp(prefix="vf-seedwt-", dir="/dev/shm")
            os.rmdir(wt)
            r = sh(f"git -C /repo worktree add -q --detach {wt} HEAD && git -C {wt} apply {patch}")
            if r.returncode:
                results[s] = {"error": "patch does not apply: " + r.stderr[-200:]}
                sh(f"git -C /repo worktree remove --force {wt}")
                continue
            env["VERIF_REPO"] = wt
        else:
            if sh("git -C /repo status --porcelain --untracked-files=no").stdout.strip():
                print("refusing: /repo has uncommitted changes", file=sys.stderr)
                return 2
            r = sh(f"git -C /repo apply {patch}")
            if r.returncode:
                results[s] = {"error": "patch does not apply: " + r.stderr[-200:]}
                continue
        res = {}
        try:
            for p in props:
                r = sh(f"./vf check {p} --tier {args.tier}", cwd=VERIF, env=env)
                viol = [ln for ln in r.stdout.splitlines() if ln.startswith("VIOLATION")]
                summary = [ln for ln in r.stdout.splitlines() if re.match(r"^C\d+ \[", ln)]
                repro = sum(1 for v in viol if "no-failing-input-found" not in v)
                res[p] = {"exit": r.returncode, "violations": len(viol), "with_reproduced_input": repro, "summary": summary[-1] if summary else r.stderr[-300:]}
                print(f"{s:45s} {p}: exit={r.returncode} violations={len(viol)} reproduced={repro}", flush=True)
        finally:
            if args.scratch:
                sh(f"git -C /repo worktree remove --force {wt}")
            else:
                sh("git -C /repo checkout -- .")
        results[s] = {"property": prop, "checks": res, "caught_by": [p for p, v in res.items() if v["exit"] == 1]}
    json.dump(results, open(os.path.join(VERIF, "seeded", args.out or ("RESULTS.json" if not args.only and not args.props else "RESULTS.partial.json")), "w"), indent=1)
    sh(f"rm -rf {out_dir}")
    missed = [s for s, v in results.items() if not v.get("caught_by")]
    print("missed:", missed)
    return 0


if __name__ == "__main__":
    sys.exit(main())
