"""Scalar encoding specs: z3 side (for proofs) and plain-Python side (for native replay).

Written from the property statements: w-byte two's complement in a given byte order; IEEE-754;
UTF-16 code units; LEB128 = canonical minimal variable-length encoding with sign extension.
"""
from __future__ import annotations

import struct

import z3

I = z3.IntSort()
ByteSeq = z3.SeqSort(I)


def digit(v, i):
    """i-th base-256 digit of the two's-complement representation of v (floor semantics: exact for negatives)."""
    v = v if z3.is_expr(v) else z3.IntVal(v)
    return (v / z3.IntVal(1 << (8 * i))) % z3.IntVal(256)


# LEB128: canonical (minimal) encoding, defined recursively:
#   enc_u(x) = [x]                   if x < 128      else [128 + x mod 128] ++ enc_u(x div 128)
#   enc_s(x) = [b]  if (r == 0 and b < 64) or (r == -1 and b >= 64)  else [128 + b] ++ enc_s(r),  b = x mod 128, r = x div 128
# The solver sees enc_u / enc_s as uninterpreted functions plus the *instances* of these defining equations that a
# proof supplies through unfold() (z3's own unfolding of recursive functions over sequences diverges on the
# continuation term). Supplying fewer instances can only make a valid obligation unprovable, never the converse.
enc_u = z3.Function("enc_uleb", I, ByteSeq)
enc_s = z3.Function("enc_sleb", I, ByteSeq)


def unfold(enc, u):
    """One unfolding of the recursive definition at u (a definition instance, given to the solver as a hint)."""
    b, r = u % 128, u / 128
    if enc is enc_u:
        return enc_u(u) == z3.If(u < 128, z3.Unit(u), z3.Concat(z3.Unit(128 + b), enc_u(r)))
    return enc_s(u) == z3.If(z3.Or(z3.And(r == 0, b < 64), z3.And(r == -1, b >= 64)), z3.Unit(b), z3.Concat(z3.Unit(128 + b), enc_s(r)))


# ---- python reference side -------------------------------------------------------------------------

_PACK = {"int8": "b", "uint8": "B", "int16": "h", "uint16": "H", "int32": "i", "uint32": "I", "int64": "q", "uint64": "Q",
         "float16": "e", "float": "f", "double": "d"}
_SIZES = {"int24": 3, "uint24": 3, "int48": 6, "uint48": 6, "int128": 16, "uint128": 16, "int8": 1, "uint8": 1, "int16": 2,
          "uint16": 2, "int32": 4, "uint32": 4, "int64": 8, "uint64": 8}


def py_decode(tname, chunk: bytes, order: str):
    if tname in ("float16", "float", "double"):
        return struct.unpack(("<" if order == "little" else ">") + _PACK[tname], chunk)[0]
    if tname == "char":
        return bytes(chunk)
    if tname == "wchar":
        return chunk.decode("utf-16-le" if order == "little" else "utf-16-be", "surrogatepass")
    # two's complement by hand (not int.from_bytes)
    le = chunk if order == "little" else chunk[::-1]
    u = sum(b << (8 * i) for i, b in enumerate(le))
    if tname.startswith("int") and le and le[-1] >= 128:
        u -= 1 << (8 * len(le))
    return u


def py_encode(tname, v, order: str):
    if tname in ("float16", "float", "double"):
        return struct.pack(("<" if order == "little" else ">") + _PACK[tname], v)
    if tname == "char":
        return bytes(v)
    if tname == "wchar":
        return v.encode("utf-16-le" if order == "little" else "utf-16-be", "surrogatepass")
    n = _SIZES[tname]
    le = bytes(((v >> (8 * i)) & 0xFF) for i in range(n))
    return le if order == "little" else le[::-1]


def py_fits(tname, v):
    if tname not in _SIZES or not isinstance(v, int):
        return True
    n = _SIZES[tname]
    if tname.startswith("int"):
        return -(1 << (8 * n - 1)) <= v < (1 << (8 * n - 1))
    return 0 <= v < (1 << (8 * n))


def py_same(a, b):
    if isinstance(a, float) or isinstance(b, float):
        return struct.pack("<d", a) == struct.pack("<d", b)
    if isinstance(a, (bytes, str)):
        if isinstance(a, bytes):
            return isinstance(b, bytes) and bytes(a) == bytes(b)
        return isinstance(b, str) and str(a) == str(b)
    return int(a) == int(b)


def py_leb(x: int, signed: bool) -> bytes:
    """Canonical LEB128 by the recursive definition."""
    if not signed:
        return bytes([x]) if x < 128 else bytes([128 + x % 128]) + py_leb(x // 128, False)
    b, r = x % 128, x // 128
    if (r == 0 and b < 64) or (r == -1 and b >= 64):
        return bytes([b])
    return bytes([128 + b]) + py_leb(r, True)
