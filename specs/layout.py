"""Reference layout, written from the C rules stated in C04/C06/C11 (not from the library's code).

describe(type)   -> abstract description of a cstruct type class (kind, size, alignment, members),
                    using only *definitions* (member list, storage kinds, declared counts), never the
                    offsets/sizes the library computed.
layout(desc,...) -> offsets, size, alignment, bit-field unit allocation.
mask(desc, e)    -> per-byte mask of data-carrying bits of a fixed-size type.
"""
from __future__ import annotations

PACK_SIZES = {"b": 1, "B": 1, "h": 2, "H": 2, "i": 4, "I": 4, "q": 8, "Q": 8, "e": 2, "f": 4, "d": 8}


class Straddle(Exception):
    pass


def roundup(x, a):
    return (x + a - 1) // a * a


def describe(t, align=None):
    """Abstract description of type class t. `align`: alignment mode of the enclosing definition (struct
    classes carry their own)."""
    from dissect.cstruct.types import (
        LEB128, BaseArray, Char, Enum, Flag, Int, Packed, Pointer, Structure, Union, Void, Wchar,
    )

    if issubclass(t, (Enum, Flag)):
        d = describe(t.type)
        return {**d, "kind": "enum", "name": t.__name__, "storage": d}
    if issubclass(t, Pointer):
        d = describe(t.cs.pointer)
        return {**d, "kind": "pointer"}
    if issubclass(t, BaseArray):
        e = describe(t.type)
        n = t.num_entries
        if t.null_terminated or not isinstance(n, int) or e["size"] is None:
            return {"kind": "array", "elem": e, "count": None, "size": None, "align": e["align"]}
        n = max(0, n)
        return {"kind": "array", "elem": e, "count": n, "size": n * e["size"], "align": e["align"]}
    if issubclass(t, Structure):
        members = []
        for f in t.__fields__:
            members.append({"name": f._name, "type": describe(f.type), "bits": f.bits or None,
                            "tid": _tid(f.type)})
        aligned = bool(getattr(t, "__align__", False))
        if issubclass(t, Union):
            lay = union_layout(members, aligned)
            return {"kind": "union", "members": members, "aligned": aligned, "size": lay["size"], "align": lay["align"],
                    "layout": lay}
        try:
            lay = struct_layout(members, aligned)
        except Straddle:
            lay = None
        return {"kind": "struct", "members": members, "aligned": aligned,
                "size": lay["size"] if lay else None, "align": lay["align"] if lay else 1, "layout": lay}
    if issubclass(t, Packed):
        s = PACK_SIZES[t.packchar]
        return {"kind": "scalar", "size": s, "align": s, "name": t.__name__}
    if issubclass(t, Int):
        # documented choices for the widths C does not have: aligned to the next power of two
        s = t.size
        a = 1
        while a < s:
            a *= 2
        return {"kind": "scalar", "size": s, "align": a, "name": t.__name__}
    if issubclass(t, Char):
        return {"kind": "scalar", "size": 1, "align": 1, "name": "char"}
    if issubclass(t, Wchar):
        return {"kind": "scalar", "size": 2, "align": 2, "name": "wchar"}
    if issubclass(t, Void):
        return {"kind": "void", "size": 0, "align": 1, "name": "void"}
    if issubclass(t, LEB128):
        return {"kind": "leb", "size": None, "align": 1, "name": t.__name__}
    # custom types: as declared
    return {"kind": "custom", "size": t.size, "align": t.alignment or 1, "name": t.__name__}


def _tid(t):
    """Storage-type identity for bit-field unit sharing: enums share with their underlying type."""
    from dissect.cstruct.types import Enum, Flag

    if issubclass(t, (Enum, Flag)):
        t = t.type
    return id(t)


def struct_layout(members, aligned):
    """C rules. Returns dict(offsets=[...], size, align, units=[(offset, width_bits, [(member_idx, consumed, bits)])])."""
    off = 0  # None once dynamic
    align = 0
    offsets = []
    units = []
    cur = None  # current bit-field unit: dict(tid, remaining, consumed, offset, width, fields)
    for i, m in enumerate(members):
        t = m["type"]
        a = t["align"] or 1
        align = max(align, a)
        if m["bits"]:
            if t["size"] is None:
                raise Straddle("bit-field on variable-size type")
            width = t["size"] * 8
            if cur is None or cur["tid"] != m["tid"] or cur["remaining"] == 0:
                # a new storage unit, placed like a member of the storage type
                if off is not None and aligned:
                    off = roundup(off, a)
                cur = {"tid": m["tid"], "remaining": width, "consumed": 0, "offset": off, "width": width, "fields": []}
                units.append(cur)
                offsets.append(off)
                if off is not None:
                    off += t["size"]
            else:
                offsets.append(None)  # shares the unit opened by an earlier member
            if m["bits"] > cur["remaining"]:
                raise Straddle(f"member {m['name']} straddles its storage unit")
            cur["fields"].append((i, cur["consumed"], m["bits"]))
            cur["consumed"] += m["bits"]
            cur["remaining"] -= m["bits"]
            continue
        cur = None
        if off is not None and aligned:
            off = roundup(off, a)
        offsets.append(off)
        if off is not None:
            if t["size"] is None:
                off = None
            else:
                off += t["size"]
    size = off
    if size is not None and aligned:
        size = roundup(size, align) if align else size
    return {"offsets": offsets, "size": size, "align": align, "units": units}


def union_layout(members, aligned):
    size = 0
    align = 0
    for m in members:
        t = m["type"]
        align = max(align, t["align"] or 1)
        if size is not None:
            size = None if t["size"] is None else max(size, t["size"])
    if size is not None and aligned and align:
        size = roundup(size, align)
    return {"offsets": [0] * len(members), "size": size, "align": align, "units": []}


def mask(desc, endian):
    """List of per-byte masks (0..255) of the data-carrying bits of a fixed-size type."""
    size = desc["size"]
    if size is None:
        raise ValueError("mask of a variable-size type")
    k = desc["kind"]
    if k in ("scalar", "enum", "pointer", "custom"):
        return [0xFF] * size
    if k == "void":
        return []
    if k == "array":
        em = mask(desc["elem"], endian)
        return em * desc["count"]
    out = [0] * size
    if k == "union":
        for m in desc["members"]:
            mm = mask(m["type"], endian)
            for i, b in enumerate(mm):
                out[i] |= b
        return out
    lay = desc["layout"]
    for i, m in enumerate(desc["members"]):
        if m["bits"]:
            continue
        off = lay["offsets"][i]
        mm = mask(m["type"], endian)
        for j, b in enumerate(mm):
            out[off + j] |= b
    for u in lay["units"]:
        w = u["width"]
        nbytes = w // 8
        word = 0
        for (_, consumed, bits) in u["fields"]:
            if endian == "<":
                word |= ((1 << bits) - 1) << consumed
            else:
                word |= ((1 << bits) - 1) << (w - consumed - bits)
        raw = word.to_bytes(nbytes, "little" if endian == "<" else "big")
        for j, b in enumerate(raw):
            out[u["offset"] + j] |= b
    return out


def library_view(t):
    """What the library computed for a structure class: offsets, size, alignment (to compare with layout())."""
    return {
        "offsets": [f.offset for f in t.__fields__],
        "size": t.size,
        "align": t.alignment,
    }
