"""Reference semantics of cstruct expressions (C10): a precedence-climbing evaluator written from the C operator
table, independent of the library's shunting-yard code."""
from __future__ import annotations

import re

PREC = {"*": 10, "/": 10, "%": 10, "+": 9, "-": 9, "<<": 8, ">>": 8, "&": 7, "^": 6, "|": 5}
TOKEN = re.compile(r"\s*(0[xX][0-9a-fA-F]+|0[bB][01]+|\d+|[A-Za-z_][A-Za-z0-9_]*|<<|>>|[-+*/%&^|~()])")
SUFFIX = re.compile(r"^(0[xX][0-9a-fA-F]+|0[bB][01]+|\d+)([uUlL]*)$")


class Undefined(Exception):
    """The C standard / the property gives no value (negative operand of / or %, negative shift, division by zero)."""


class Malformed(Exception):
    pass


def tokenize(s):
    out = []
    i = 0
    s = s.strip()
    while i < len(s):
        m = TOKEN.match(s, i)
        if not m:
            raise Malformed(s[i:])
        tok = m.group(1)
        i = m.end()
        if tok[0].isdigit():
            # integer suffixes
            j = i
            while j < len(s) and s[j] in "uUlL":
                j += 1
            i = j
        out.append(tok)
    return out


def number(tok):
    if tok[:2] in ("0x", "0X"):
        return int(tok, 16)
    if tok[:2] in ("0b", "0B"):
        return int(tok[2:], 2)
    if len(tok) > 1 and tok[0] == "0":
        return int(tok, 8)
    return int(tok)


def evaluate(s, ctx, consts, sizeof, apply_op=None, neg=None, inv=None):
    toks = tokenize(s)
    pos = [0]

    def peek():
        return toks[pos[0]] if pos[0] < len(toks) else None

    def take():
        t = peek()
        pos[0] += 1
        return t

    def primary():
        t = take()
        if t is None:
            raise Malformed("eof")
        if t == "(":
            v = expr(0)
            if take() != ")":
                raise Malformed("expected )")
            return v
        if t == "-":
            v = primary()
            return neg(v) if neg else -v
        if t == "~":
            v = primary()
            return inv(v) if inv else ~v
        if t == "sizeof":
            if take() != "(":
                raise Malformed("sizeof(")
            name = take()
            if take() != ")":
                raise Malformed("sizeof)")
            return sizeof(name)
        if t[0].isdigit():
            return number(t)
        if t[0].isalpha() or t[0] == "_":
            if t in ctx:
                return int(ctx[t]) if apply_op is None else ctx[t]
            if t in consts:
                return int(consts[t])
            raise Malformed(f"unknown identifier {t}")
        raise Malformed(t)

    def expr(minp):
        left = primary()
        while True:
            op = peek()
            if op not in PREC or PREC[op] < minp:
                return left
            take()
            right = expr(PREC[op] + 1)  # left associative
            left = apply(op, left, right) if apply_op is None else apply_op(op, left, right)

    def apply(op, a, b):
        if op in ("/", "%"):
            if a < 0 or b <= 0:
                raise Undefined(op)
            return a // b if op == "/" else a % b
        if op in ("<<", ">>"):
            if b < 0 or b > 256:
                raise Undefined(op)
            return a << b if op == "<<" else a >> b
        return {"*": a * b, "+": a + b, "-": a - b, "&": a & b, "^": a ^ b, "|": a | b}[op]

    v = expr(0)
    if pos[0] != len(toks):
        raise Malformed("trailing tokens")
    return v
