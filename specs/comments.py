"""Reference comment stripper for definition text (C13): a left-to-right state machine.

Quoted strings (single or double quotes, closed by the next same quote) are kept verbatim; /* ... */ is replaced by as many
newlines as it contains; // runs to the end of the line. An unterminated quote or block comment opener is ordinary text."""
from __future__ import annotations


def strip_comments(s: str) -> str:
    out = []
    i = 0
    n = len(s)
    while i < n:
        c = s[i]
        if c in "\"'":
            j = s.find(c, i + 1)
            if j != -1:
                out.append(s[i : j + 1])
                i = j + 1
                continue
        if c == "/" and i + 1 < n and s[i + 1] == "*":
            j = s.find("*/", i + 2)
            if j != -1:
                out.append("\n" * s[i : j + 2].count("\n"))
                i = j + 2
                continue
        if c == "/" and i + 1 < n and s[i + 1] == "/":
            j = i + 2
            while j < n and s[j] not in "\r\n":
                j += 1
            if j == n or s[j] == "\n":
                i = j
                continue
        out.append(c)
        i += 1
    return "".join(out)
