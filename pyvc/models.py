"""Models of Python builtins / stdlib pieces over symbolic values (the axiomatised part of the trusted
base: int.from_bytes/to_bytes, struct.Struct, io.BytesIO, utf-16 codecs, containers)."""
from __future__ import annotations

import ast
import enum as _enum
import io
import operator
import struct as _struct_mod

import z3

from pyvc import sym
from pyvc.ctx import Infeasible, PyRaise
from pyvc.stream import SymStream, WeakStream
from pyvc.sym import (
    SArr,
    SBytes,
    SEnum,
    SFloat,
    SPtr,
    SStr,
    STyped,
    Seg,
    Unsupported,
    deep_symbolic,
    is_symbool,
    is_symint,
    is_z3,
    strip,
    zbool,
    zint,
)

_MODELS = {}
_METHOD_MODELS = {}  # (type, name) -> model


def model(key, always=False):
    def deco(fn):
        fn.always = always
        _MODELS[key] = fn
        return fn

    return deco


def method_model(tp, name, always=False):
    def deco(fn):
        fn.always = always
        _METHOD_MODELS[(tp, name)] = fn
        return fn

    return deco


def lookup(f):
    try:
        m = _MODELS.get(f)
    except TypeError:
        m = None
    if m is not None:
        return m
    slf = getattr(f, "__self__", None)
    name = getattr(f, "__name__", None)
    if slf is not None and name is not None:
        if isinstance(slf, type):
            # classmethod-like builtins: int.from_bytes bound to an int subclass
            for k in slf.__mro__:
                mm = _METHOD_MODELS.get((k, name))
                if mm is not None:
                    return _bind(mm, slf)
        else:
            for k in type(slf).__mro__:
                mm = _METHOD_MODELS.get((k, name))
                if mm is not None:
                    return _bind(mm, slf)
    return None


def _bind(mm, slf):
    def bound(interp, *a, **k):
        return mm(interp, slf, *a, **k)

    bound.always = getattr(mm, "always", False)
    return bound


_SAFE_CONTAINER_METHODS = {
    (list, "append"),
    (list, "extend"),
    (list, "pop"),
    (list, "insert"),
    (list, "copy"),
    (list, "clear"),
    (list, "reverse"),
    (dict, "update"),
    (dict, "get"),
    (dict, "items"),
    (dict, "keys"),
    (dict, "values"),
    (dict, "pop"),
    (dict, "setdefault"),
    (dict, "copy"),
}
_SAFE_FUNCS = {
    getattr,
    setattr,
    hasattr,
    object.__setattr__,
    object.__getattribute__,
    list,
    tuple,
    enumerate,
    zip,
    reversed,
    iter,
    dict,
    id,
    type,
    isinstance,
    issubclass,
    callable,
    repr,
}


def native_ok(f, args, kwargs) -> bool:
    if f in _SAFE_FUNCS:
        if f in (isinstance,):
            return False
        return True
    slf = getattr(f, "__self__", None)
    name = getattr(f, "__name__", None)
    if slf is not None and not isinstance(slf, type):
        for k in type(slf).__mro__:
            if (k, name) in _SAFE_CONTAINER_METHODS:
                return True
    # unbound descriptors: dict.update(d, x) / list.append(l, x)
    oc = getattr(f, "__objclass__", None)
    if oc is not None and (oc, name) in _SAFE_CONTAINER_METHODS:
        return True
    return False


# --------------------------------------------------------------------------------------------------
# integer codec specs (definitions, not axioms, for concrete byte counts)


def dec_int(items, order: str, signed: bool):
    """Integer value of a list of byte terms."""
    n = len(items)
    seq = items if order == "little" else list(reversed(items))
    total = 0
    for i, b in enumerate(seq):
        total = total + zint(b) * (1 << (8 * i)) if not isinstance(b, int) or is_z3(total) else total + b * (1 << (8 * i))
    if n == 0:
        return 0
    if signed:
        if isinstance(total, int):
            return total - (1 << (8 * n)) if total >= 1 << (8 * n - 1) else total
        top = zint(seq[-1])
        return z3.If(top >= 128, total - (1 << (8 * n)), total)
    return total


def enc_int(x, n: int, order: str):
    """n bytes of x (two's complement when negative): byte i = (x div 256^i) mod 256 - exact for all x in range."""
    if isinstance(x, int):
        items = list((x % (1 << (8 * n))).to_bytes(n, "little"))
    else:
        x = zint(x)
        items = [z3.simplify((x / z3.IntVal(1 << (8 * i))) % z3.IntVal(256)) for i in range(n)]
    return items if order == "little" else list(reversed(items))


def _key(items):
    return tuple(i.get_id() if is_z3(i) else ("c", i) for i in items)


def dec_int_cached(ctx, items, order, signed):
    """dec_int with the inverse law dec(enc(x)) == x applied structurally (x known to fit: the encoder
    only produced these bytes on the path where fits(x) holds). The law itself is checked by the solver
    for every width in pyvc.crosscheck."""
    le = list(items) if order == "little" else list(reversed(items))
    cache = ctx.ghost.setdefault("codec", {"enc": {}, "dec": {}})
    hit = cache["enc"].get((_key(le), signed))
    if hit is not None:
        return hit
    v = _norm(dec_int(items, order, signed))
    if is_z3(v):
        cache["dec"][(v.get_id(), len(le))] = (le, v)
    return v


def enc_int_cached(ctx, x, n, order, signed):
    """enc_int with enc(dec(bytes)) == bytes applied structurally (same width)."""
    cache = ctx.ghost.setdefault("codec", {"enc": {}, "dec": {}})
    if is_z3(x):
        hit = cache["dec"].get((x.get_id(), n))
        if hit is not None:
            le = hit[0]
            return list(le) if order == "little" else list(reversed(le))
    items = enc_int(x, n, order)
    le = items if order == "little" else list(reversed(items))
    if is_z3(x):
        cache["enc"][(_key(le), signed)] = x
    return items


def fits(x, n: int, signed: bool):
    lo, hi = (-(1 << (8 * n - 1)), (1 << (8 * n - 1)) - 1) if signed else (0, (1 << (8 * n)) - 1)
    if n == 0:
        lo = hi = 0
    if isinstance(x, int):
        return lo <= x <= hi
    return z3.And(zint(x) >= lo, zint(x) <= hi)


# --------------------------------------------------------------------------------------------------
# builtins


@model(len)
def m_len(interp, v):
    if hasattr(v, "_pyvc_len"):
        return v._pyvc_len(interp)
    if isinstance(v, SBytes):
        return v.length()
    if isinstance(v, SArr):
        return v.count
    if isinstance(v, SStr):
        # len() of a str counts code points: a surrogate pair is two UTF-16 code units but one character, so the
        # length of decoded text is only known to lie in [ceil(units/2), units]
        n = v.raw.length()
        units = n // 2 if isinstance(n, int) else sym.floordiv(n, 2)
        if isinstance(units, int) and units <= 1:
            return units
        sq = v.raw.seq()
        k = z3.Function(f"codepoints_{v.endian}", sq.sort(), z3.IntSort())(sq)
        interp.ctx.assume(z3.And(2 * k >= zint(units), k <= zint(units), k >= 0))
        return k
    if isinstance(v, (list, tuple, dict, set)):
        return len(v)
    raise Unsupported(f"len of {type(v).__name__}")


@model(isinstance)
def m_isinstance(interp, v, t):
    return sym_isinstance(v, t)


def sym_isinstance(v, t):
    ts = t if isinstance(t, tuple) else (t,)
    if isinstance(v, (SEnum, SPtr, STyped)):
        return any(issubclass(v.cls, x) for x in ts)
    if is_symbool(v):
        return any(x in (bool, int, object) for x in ts)
    if is_symint(v):
        return any(x in (int, object) for x in ts)
    if isinstance(v, SBytes):
        return any(x in (bytes, bytearray, object) for x in ts) if not v.mutable else any(x in (bytearray, object) for x in ts)
    if isinstance(v, SStr):
        return any(x in (str, object) for x in ts)
    if isinstance(v, SFloat):
        return any(x in (float, object) for x in ts)
    if isinstance(v, SArr):
        return any(x in (list, object) for x in ts)
    return isinstance(v, t)


def _ite(c, a, b):
    if c is True:
        return a
    if c is False:
        return b
    return z3.If(zbool(c), zint(a), zint(b))


@model(max)
def m_max(interp, *args, **kw):
    vals = list(args[0]) if len(args) == 1 else list(args)
    vals = [strip(v) for v in vals]
    r = vals[0]
    ctx = interp.ctx
    for v in vals[1:]:
        c = ctx.lt(r, v)
        if not isinstance(c, bool):
            # decide the comparison when the path condition settles it: keeps terms free of If
            if ctx.valid(ctx.le(r, v)):
                r = v
                continue
            if ctx.valid(ctx.le(v, r)):
                continue
        r = _norm(_ite(c, v, r))
    return r


@model(min)
def m_min(interp, *args, **kw):
    vals = list(args[0]) if len(args) == 1 else list(args)
    vals = [strip(v) for v in vals]
    r = vals[0]
    for v in vals[1:]:
        c = interp.ctx.lt(v, r)
        r = _norm(_ite(c, v, r))
    return r


@model(sum)
def m_sum(interp, it, start=0):
    r = start
    for v in interp.iterate(it):
        r = binop(interp, ast.Add(), r, v)
    return r


@model(abs)
def m_abs(interp, v):
    v = zint(strip(v))
    return z3.If(v >= 0, v, -v)


@model(int)
def m_int(interp, v=0, base=None):
    v = strip(v)
    if is_symint(v):
        return v
    if is_symbool(v):
        return zint(v)
    raise Unsupported("int() of symbolic non-integer")


@model(bool)
def m_bool(interp, v=False):
    return interp.truth(v)


@model(any)
def m_any(interp, it):
    for v in interp.iterate(it):
        if interp.truth(v):
            return True
    return False


@model(all)
def m_all(interp, it):
    for v in interp.iterate(it):
        if not interp.truth(v):
            return False
    return True


@model(ord)
def m_ord(interp, v):
    if isinstance(v, SBytes):
        n = v.length()
        if isinstance(n, int) and n == 1:
            return v.byte_at(0)
        if not isinstance(n, int) and interp.ctx.valid(n == 1):
            b = v.seq()[z3.IntVal(0)]
            interp.ctx.assume_byte(b)
            return b
    raise Unsupported("ord of symbolic value that is not a single byte")


@model(chr)
def m_chr(interp, v):
    raise Unsupported("chr of symbolic value")


@model(bytes)
def m_bytes(interp, v=b"", *a):
    if isinstance(v, SBytes):
        return SBytes(list(v.items))
    if isinstance(v, (list, tuple)):
        return SBytes([strip(x) for x in v])
    raise Unsupported("bytes() of symbolic value")


@model(bytearray, always=True)
def m_bytearray(interp, v=b"", *a):
    if isinstance(v, (bytes, bytearray)):
        return SBytes(list(v), mutable=True)
    if isinstance(v, SBytes):
        return SBytes(list(v.items), mutable=True)
    if isinstance(v, (list, tuple)):
        return SBytes([strip(x) for x in v], mutable=True)
    raise Unsupported("bytearray() of symbolic value")


@model(range)
def m_range(interp, *args):
    from pyvc.interp import SymRange

    args = [strip(a) for a in args]
    if len(args) == 1:
        return SymRange(0, args[0])
    if len(args) == 2:
        return SymRange(args[0], args[1])
    return SymRange(*args)


@model(map, always=True)
def m_map(interp, f, *its):
    lists = [interp.iterate(i) for i in its]
    return [interp.call(f, list(xs)) for xs in zip(*lists)]


@model(sorted, always=True)
def m_sorted(interp, it, key=None, reverse=False):
    items = interp.iterate(it)
    keys = [interp.call(key, [x]) if key is not None else x for x in items]
    if deep_symbolic(keys):
        raise Unsupported("sorted over symbolic keys")
    order = sorted(range(len(items)), key=lambda i: keys[i], reverse=bool(reverse))
    return [items[i] for i in order]


@model(hasattr)
def m_hasattr(interp, obj, name):
    if isinstance(obj, (SBytes, SArr, SStr, SFloat)) or is_z3(obj):
        return False if name == "read" else (_ for _ in ()).throw(Unsupported(f"hasattr({name}) on symbolic value"))
    if isinstance(obj, (SEnum, SPtr, STyped)):
        return hasattr(obj.cls, name) or hasattr(obj, name)
    return hasattr(obj, name)


@model(type, always=True)
def m_type(interp, *args, **kwargs):
    """type(x): the engine's value models stand for CPython objects; report the class they stand for, so that code which
    dispatches on the exact type (`type(stream) is BytesIO`) takes the branch it would take natively."""
    if len(args) == 1 and not kwargs:
        import io as _io

        from pyvc.stream import SymStream

        v = args[0]
        if type(v) is SymStream:
            return _io.BytesIO
        if isinstance(v, SBytes):
            return bytearray if v.mutable else bytes
        if isinstance(v, SStr):
            return str
        if isinstance(v, SFloat):
            return float
        if isinstance(v, (SEnum, SPtr, STyped)):
            return v.cls
        if is_symbool(v):
            return bool
        if is_symint(v):
            return int
        return type(v)
    return type(*args, **kwargs)


@model(type.__call__, always=True)
def m_type_call(interp, cls, *args, **kwargs):
    return interp.type_call(cls, args, kwargs)


def _install_new_class():
    import types as _types

    @model(_types.new_class, always=True)
    def m_new_class(interp, name, bases=(), kwds=None, exec_body=None):
        # class creation is CPython machinery; only the namespace callback is code of the library
        body = (lambda ns: interp.call(exec_body, [ns])) if exec_body is not None else None
        if not isinstance(name, str):
            name = "".join(str(x) for x in getattr(name, "parts", [name]))  # class name with a symbolic part: cosmetic
        try:
            return _types.new_class(name, bases, kwds, body)
        except (Unsupported, Infeasible, PyRaise):
            raise
        except Exception as ex:  # noqa: BLE001
            raise PyRaise(type(ex), ex, str(ex)) from None


_install_new_class()


@model(io.BytesIO, always=True)
def m_bytesio(interp, initial=b""):
    if isinstance(initial, SArr):
        raise Unsupported("BytesIO of array")
    return SymStream(interp.ctx, SBytes.of(initial) if not isinstance(initial, SBytes) else SBytes(list(initial.items)), 0, name=interp.ctx.fresh("bio"))


@model(_enum.EnumMeta.__call__)
def m_enum_call(interp, cls, value, *a, **k):
    # EnumType.__call__(cls, value) -> member lookup / _missing_: the cstruct enum keeps every value
    # (value preservation through enum's machinery is exercised natively under C12, not proved)
    return SEnum(cls, strip(value))


def _install_int_dunders():
    table = {"__add__": ast.Add, "__sub__": ast.Sub, "__mul__": ast.Mult, "__floordiv__": ast.FloorDiv, "__mod__": ast.Mod,
             "__pow__": ast.Pow, "__lshift__": ast.LShift, "__rshift__": ast.RShift, "__and__": ast.BitAnd, "__xor__": ast.BitXor,
             "__or__": ast.BitOr}
    for nm, op in table.items():
        def mk(op):
            def m(interp, a, b):
                return binop(interp, op(), strip(a), strip(b))
            return m
        _MODELS[getattr(int, nm)] = mk(op)


def _int_new(interp, cls, value=0, *rest):
    r = construct(interp, cls, (value, *rest), {})
    if r is NotImplemented:
        if deep_symbolic(value) or deep_symbolic(rest):
            raise Unsupported(f"{cls.__name__}.__new__ with symbolic value")
        base = int if issubclass(cls, int) else float if issubclass(cls, float) else bytes if issubclass(cls, bytes) else str
        return base.__new__(cls, value, *rest)
    return r


_install_int_dunders()
model(int.__new__)(_int_new)
model(float.__new__)(_int_new)
model(bytes.__new__)(_int_new)
model(str.__new__)(_int_new)


@method_model(int, "from_bytes")
def m_from_bytes(interp, cls, data, byteorder="big", *, signed=False):
    data = SBytes.of(data)
    n = data.length()
    if not isinstance(n, int):
        # a short read delivered by the weak stream contract: case-split the (small) length exactly
        if not interp.ctx.valid(z3.And(zint(n) >= 0, zint(n) <= 32)):
            raise Unsupported("int.from_bytes of symbolic-length bytes")
        n = concretise(interp, n, 0, 32)
        data = SBytes([data.byte_at(i) for i in range(n)])
    items = data.items if data.all_bytes() else [data.byte_at(i) for i in range(n)]
    for it in items:
        if is_z3(it):
            interp.ctx.assume_byte(it)
    v = dec_int_cached(interp.ctx, items, byteorder, bool(signed))
    if cls is int:
        return v
    r = construct(interp, cls, (v,), {})
    return v if r is NotImplemented else r


def to_bytes(interp, x, length=1, byteorder="big", *, signed=False):
    x = strip(x)
    if not isinstance(length, int):
        raise Unsupported("to_bytes with symbolic length")
    signed = interp.truth(signed)  # e.g. signed=value < 0 with a symbolic value: both cases are explored
    ok = fits(x, length, bool(signed))
    if not interp.truth(ok):
        raise PyRaise(OverflowError, None, "int too big to convert")
    return SBytes(enc_int_cached(interp.ctx, x, length, byteorder, bool(signed)))


def construct(interp, cls, args, kwargs):
    """type.__call__(cls, value) / cls.__new__(cls, value) for cstruct value classes with symbolic payload."""
    from dissect.cstruct.types.base import BaseArray
    from dissect.cstruct.types.enum import EnumMetaType
    from dissect.cstruct.types.pointer import Pointer
    from dissect.cstruct.types.structure import StructureMetaType

    if isinstance(cls, StructureMetaType):
        return NotImplemented  # real instance, generated __init__ runs natively on opaque values
    if not args:
        return NotImplemented
    v = args[0]
    if not deep_symbolic(args) and not deep_symbolic(kwargs):
        return NotImplemented
    if isinstance(cls, EnumMetaType):
        return SEnum(cls, strip(v))
    if issubclass(cls, Pointer):
        return SPtr(cls, strip(v), args[1] if len(args) > 1 else None, args[2] if len(args) > 2 else None)
    if issubclass(cls, (int,)) and (is_symint(strip(v)) or isinstance(v, (SEnum, STyped))):
        return STyped(cls, strip(v)) if TAG_INTS else strip(v)
    if issubclass(cls, float) and (isinstance(v, SFloat) or is_symint(v)):
        return v
    if issubclass(cls, bytes) and isinstance(v, SBytes):
        return v
    if issubclass(cls, str) and isinstance(v, SStr):
        return v
    if issubclass(cls, list) and isinstance(v, SArr):
        return v
    if issubclass(cls, list) and isinstance(v, list):
        return NotImplemented  # native list construction does not inspect elements
    if issubclass(cls, (bytes, str, int, float)):
        raise Unsupported(f"construct {cls.__name__} from {type(v).__name__}")
    return NotImplemented


TAG_INTS = False


def truth(interp, v):
    from dissect.cstruct.types.structure import StructureMetaType

    if isinstance(type(v), StructureMetaType):
        # generated __bool__: any([fields]) (the generated text itself is checked under C17)
        for name in type(v).fields:
            if interp.truth(getattr(v, name)):
                return True
        return False
    return NotImplemented


# --------------------------------------------------------------------------------------------------
# attribute access / methods of symbolic values


def sym_getattr(interp, obj, name):
    from pyvc.interp import SymMethod

    if isinstance(obj, SFloat) or isinstance(obj, SArr):
        raise Unsupported(f"attribute {name} of {type(obj).__name__}")
    return SymMethod(obj, name)


def tagged_getattr(interp, obj, name):
    import types

    if name in ("cls",):
        return obj.cls
    if isinstance(obj, SEnum):
        if name in ("value", "_value_"):
            return obj.value
        if name == "__class__":
            return obj.cls
    if isinstance(obj, SPtr):
        if name in ("_stream", "_context", "_value"):
            return getattr(obj, name)
        if name == "__class__":
            return obj.cls
        if name == "type":
            return obj.cls.type
    if name == "__class__":
        return obj.cls
    # class attribute (method defined in /repo) bound to the model instance
    for k in obj.cls.__mro__:
        if name in k.__dict__:
            a = k.__dict__[name]
            if isinstance(a, types.FunctionType):
                return types.MethodType(a, obj)
            if isinstance(a, (classmethod,)):
                return types.MethodType(a.__func__, obj.cls)
            if isinstance(a, staticmethod):
                return a.__func__
            if hasattr(a, "__get__") and not isinstance(a, type):
                try:
                    return a.__get__(obj, obj.cls)
                except Exception:  # noqa: BLE001
                    break
            return a
    from pyvc.interp import SymMethod

    if name in ("to_bytes", "bit_length"):
        return SymMethod(obj.value, name)
    raise Unsupported(f"attribute {name} on symbolic {obj.cls.__name__}")


def sym_method(interp, recv, name, args, kwargs):
    if isinstance(recv, z3.BitVecRef):
        if name == "to_bytes":
            n, order = args[0], args[1] if len(args) > 1 else kwargs.get("byteorder", "big")
            if kwargs.get("signed", False):
                raise Unsupported("signed to_bytes of a bit-vector")
            w = recv.size()
            # unsigned conversion: value must be in [0, 2^(8n))
            if 8 * n < w:
                ok = z3.ULT(recv, z3.BitVecVal(1 << (8 * n), w)) if 8 * n < w else z3.BoolVal(True)
                if not interp.truth(z3.And(recv >= 0, ok)):
                    raise PyRaise(OverflowError, None, "int too big to convert")
            items = [z3.BV2Int(z3.Extract(8 * i + 7, 8 * i, recv)) if 8 * i + 7 < w else 0 for i in range(n)]
            return SBytes(items if order == "little" else list(reversed(items)))
        raise Unsupported(f"int.{name} on bit-vector")
    if is_symint(recv) or is_symbool(recv):
        if name == "to_bytes":
            return to_bytes(interp, recv, *args, **kwargs)
        raise Unsupported(f"int.{name} on symbolic value")
    if isinstance(recv, SBytes):
        if name == "decode":
            enc = args[0] if args else kwargs.get("encoding", "utf-8")
            if enc in ("utf-16-le", "utf-16-be"):
                return SStr(recv, enc[-2:])
            raise Unsupported(f"decode({enc})")
        if name == "append" and recv.mutable:
            recv.items.append(strip(args[0]))
            recv._seq = None
            return None
        if name == "hex":
            raise Unsupported("hex of symbolic bytes")
        raise Unsupported(f"bytes.{name} on symbolic value")
    if isinstance(recv, SStr):
        if name == "encode":
            enc = args[0] if args else kwargs.get("encoding", "utf-8")
            if enc in ("utf-16-le", "utf-16-be"):
                if enc[-2:] == recv.endian:
                    return recv.raw
                return swap16(interp, recv.raw)
            raise Unsupported(f"encode({enc})")
        raise Unsupported(f"str.{name} on symbolic value")
    raise Unsupported(f"method {name} on {type(recv).__name__}")


def swap16(interp, raw: SBytes) -> SBytes:
    n = raw.length()
    if isinstance(n, int) and n % 2 == 0:
        items = [raw.byte_at(i) for i in range(n)]
        out = []
        for i in range(0, n, 2):
            out += [items[i + 1], items[i]]
        return SBytes(out)
    raise Unsupported("byte swap of symbolic-length utf-16 data")


@method_model(bytes, "join")
def m_bytes_join(interp, sep, parts):
    if sep != b"":
        raise Unsupported("join with separator")
    if hasattr(parts, "_pyvc_join"):
        return parts._pyvc_join(interp)
    out = SBytes([])
    for p in parts:
        out = out.concat(SBytes.of(p))
    return out


# struct.Struct ------------------------------------------------------------------------------------


class SymStructFmt:
    """_struct(endian, f"{count}{char}") with a symbolic count."""

    _pyvc_model = True

    def __init__(self, interp, endian, count, char):
        self.interp, self.endian, self.count, self.char = interp, endian, count, char
        if char in _INT_CHARS:
            self.esize = _INT_CHARS[char][0]
        elif char in _FLOAT_CHARS:
            self.esize = _FLOAT_CHARS[char]
        else:
            raise Unsupported(f"symbolic count for format char {char!r}")
        if endian in "@=":
            raise Unsupported("native byte order is outside the claimed domain")

    @property
    def size(self):
        return _norm(zint(self.count) * self.esize)

    def unpack(self, data):
        data = SBytes.of(data)
        ctx = self.interp.ctx
        if not self.interp.truth(ctx.eq(data.length(), self.size)):
            raise PyRaise(_struct_mod.error, None, "unpack requires a buffer of the right size")
        return SArr(self.char, data, self.count, self.endian)

    def pack(self, *vals):
        from pyvc.interp import StarArr

        if len(vals) == 1 and isinstance(vals[0], StarArr):
            arr = vals[0].arr
            ctx = self.interp.ctx
            if arr.etype == self.char and arr.endian == self.endian:
                if not self.interp.truth(ctx.eq(arr.count, self.count)):
                    raise PyRaise(_struct_mod.error, None, "pack expected a different number of items")
                return arr.raw
        raise Unsupported("Struct.pack with symbolic count on non-matching data")


def _install_struct_model():
    from dissect.cstruct.types.packed import _struct

    @model(_struct)
    def m__struct(interp, endian, packchar):
        from pyvc.interp import SymFStr

        if isinstance(packchar, SymFStr) and len(packchar.parts) == 2 and isinstance(packchar.parts[1], str):
            cnt = strip(packchar.parts[0])
            if interp.truth(interp.ctx.lt(cnt, 0)):
                raise PyRaise(_struct_mod.error, None, "bad char in struct format")
            return SymStructFmt(interp, endian, cnt, packchar.parts[1])
        raise Unsupported("_struct with symbolic format")


_install_struct_model()

_INT_CHARS = {"b": (1, True), "B": (1, False), "h": (2, True), "H": (2, False), "i": (4, True), "I": (4, False),
              "l": (4, True), "L": (4, False), "q": (8, True), "Q": (8, False)}
_FLOAT_CHARS = {"e": 2, "f": 4, "d": 8}


def parse_fmt(fmt: str):
    """'<2Hx3B' -> (order, [(char, count), ...]) for the standard-size byte orders."""
    if not fmt or fmt[0] not in "<>!=@":
        raise Unsupported(f"struct format without explicit byte order: {fmt!r}")
    if fmt[0] in "@=":
        raise Unsupported("native byte order is outside the claimed domain")
    order = "little" if fmt[0] == "<" else "big"
    items = []
    num = ""
    for ch in fmt[1:]:
        if ch.isdigit():
            num += ch
            continue
        if ch.isspace():
            continue
        items.append((ch, int(num) if num else 1))
        num = ""
    if num:
        raise PyRaise(_struct_mod.error, None, "repeat count given without format specifier")
    return order, items


@method_model(_struct_mod.Struct, "unpack")
def m_struct_unpack(interp, st, data):
    data = SBytes.of(data)
    n = data.length()
    if not isinstance(n, int):
        raise Unsupported("Struct.unpack of symbolic-length buffer")
    if n != st.size:
        raise PyRaise(_struct_mod.error, None, f"unpack requires a buffer of {st.size} bytes")
    order, items = parse_fmt(st.format)
    raw = [data.byte_at(i) for i in range(n)]
    for it in raw:
        if is_z3(it):
            interp.ctx.assume_byte(it)
    out = []
    pos = 0
    for ch, cnt in items:
        if ch == "x":
            pos += cnt
        elif ch in _INT_CHARS:
            sz, sg = _INT_CHARS[ch]
            for _ in range(cnt):
                out.append(dec_int_cached(interp.ctx, raw[pos : pos + sz], order, sg))
                pos += sz
        elif ch in _FLOAT_CHARS:
            sz = _FLOAT_CHARS[ch]
            for _ in range(cnt):
                out.append(SFloat(dec_int_cached(interp.ctx, raw[pos : pos + sz], order, False), sz * 8))
                pos += sz
        else:
            raise Unsupported(f"struct format char {ch!r}")
    return tuple(out)


@method_model(_struct_mod.Struct, "pack")
def m_struct_pack(interp, st, *vals):
    order, items = parse_fmt(st.format)
    need = sum(cnt for ch, cnt in items if ch != "x")
    if need != len(vals):
        raise PyRaise(_struct_mod.error, None, f"pack expected {need} items for packing (got {len(vals)})")
    out = []
    vi = 0
    for ch, cnt in items:
        if ch == "x":
            out += [0] * cnt
        elif ch in _INT_CHARS:
            sz, sg = _INT_CHARS[ch]
            for _ in range(cnt):
                v = strip(vals[vi])
                vi += 1
                if isinstance(v, (SFloat, SBytes, SStr, SArr)) or v is None:
                    raise PyRaise(_struct_mod.error, None, "required argument is not an integer")
                ok = fits(v, sz, sg)
                if not interp.truth(ok):
                    raise PyRaise(_struct_mod.error, None, "argument out of range")
                out += enc_int_cached(interp.ctx, v, sz, order, sg)
        elif ch in _FLOAT_CHARS:
            sz = _FLOAT_CHARS[ch]
            for _ in range(cnt):
                v = vals[vi]
                vi += 1
                if isinstance(v, SFloat) and v.width == sz * 8:
                    out += enc_int_cached(interp.ctx, v.bits, sz, order, False)
                elif isinstance(v, (int, float)) and not isinstance(v, bool):
                    out += list(_struct_mod.pack(("<" if order == "little" else ">") + ch, v))
                else:
                    raise Unsupported("packing a symbolic non-float as float")
        else:
            raise Unsupported(f"struct format char {ch!r}")
    return SBytes(out)


# --------------------------------------------------------------------------------------------------
# operators


def _norm(t):
    """Simplify; collapse numerals/booleans to python values."""
    if not is_z3(t):
        return t
    t = z3.simplify(t)
    if z3.is_int_value(t):
        return t.as_long()
    if z3.is_true(t):
        return True
    if z3.is_false(t):
        return False
    return t


_PYOPS = {
    ast.Add: operator.add,
    ast.Sub: operator.sub,
    ast.Mult: operator.mul,
    ast.FloorDiv: operator.floordiv,
    ast.Mod: operator.mod,
    ast.LShift: operator.lshift,
    ast.RShift: operator.rshift,
    ast.BitAnd: operator.and_,
    ast.BitOr: operator.or_,
    ast.BitXor: operator.xor,
    ast.Pow: operator.pow,
    ast.Div: operator.truediv,
    ast.MatMult: operator.matmul,
}
_IPYOPS = {
    ast.Add: operator.iadd,
    ast.Sub: operator.isub,
    ast.Mult: operator.imul,
    ast.BitOr: operator.ior,
    ast.BitAnd: operator.iand,
}


def binop(interp, op, a, b, inplace=False):
    ctx = interp.ctx
    t = type(op)
    if not (deep_symbolic(a) or deep_symbolic(b)):
        try:
            if inplace and t in _IPYOPS:
                return _IPYOPS[t](a, b)
            return _PYOPS[t](a, b)
        except Exception as ex:  # noqa: BLE001
            raise PyRaise(type(ex), ex, str(ex)) from None
    # lists holding symbolic values: concatenation / repetition are structural
    if isinstance(a, (list, tuple)) and isinstance(b, (list, tuple)) and t is ast.Add:
        if inplace and isinstance(a, list):
            a.extend(b)
            return a
        return a + b
    if isinstance(a, (list, tuple)) and isinstance(b, int) and t is ast.Mult:
        return a * b
    # pointer arithmetic etc: python-level dunder of a model instance
    if isinstance(a, SPtr):
        dn = {ast.Add: "__add__", ast.Sub: "__sub__", ast.Mult: "__mul__", ast.FloorDiv: "__floordiv__", ast.Mod: "__mod__",
              ast.Pow: "__pow__", ast.LShift: "__lshift__", ast.RShift: "__rshift__", ast.BitAnd: "__and__",
              ast.BitXor: "__xor__", ast.BitOr: "__or__"}.get(t)
        if dn:
            return interp.call(tagged_getattr(interp, a, dn), [b])
    # bytes
    if isinstance(a, (SBytes, bytes, bytearray)) and isinstance(b, (SBytes, bytes, bytearray)) and t is ast.Add:
        r = SBytes.of(a).concat(SBytes.of(b))
        if inplace and isinstance(a, SBytes) and a.mutable:
            a.items = r.items
            a._seq = None
            return a
        return r
    if isinstance(a, (bytes, bytearray)) and t is ast.Mult:
        n = concretise(interp, strip(b), 0, 4096)
        return a * n
    if isinstance(a, SStr) and isinstance(b, str) and t is ast.Add:
        raw = b.encode("utf-16-" + a.endian)
        return SStr(a.raw.concat(SBytes.of(raw)), a.endian)
    if isinstance(a, str) and t is ast.Mult:
        n = concretise(interp, strip(b), 0, 4096)
        return a * n
    a, b = strip(a), strip(b)
    if isinstance(a, z3.BitVecRef) or isinstance(b, z3.BitVecRef):
        return bv_binop(interp, t, a, b)
    if a is None or b is None:
        raise PyRaise(TypeError, None, f"unsupported operand type(s) for {t.__name__}: NoneType")
    if not (sym.is_intlike(a) or is_symbool(a)) or not (sym.is_intlike(b) or is_symbool(b)):
        raise Unsupported(f"binary {t.__name__} on {type(a).__name__}, {type(b).__name__}")
    za, zb = zint(a), zint(b)
    if t is ast.Add:
        return _norm(za + zb)
    if t is ast.Sub:
        return _norm(za - zb)
    if t is ast.Mult:
        return _norm(za * zb)
    if t is ast.FloorDiv:
        if not isinstance(b, int):
            if interp.truth(ctx.eq(b, 0)):
                raise PyRaise(ZeroDivisionError, None, "integer division or modulo by zero")
        elif b == 0:
            raise PyRaise(ZeroDivisionError, None, "integer division or modulo by zero")
        return _norm(sym.floordiv(a, b))
    if t is ast.Mod:
        if not isinstance(b, int):
            if interp.truth(ctx.eq(b, 0)):
                raise PyRaise(ZeroDivisionError, None, "integer division or modulo by zero")
        elif b == 0:
            raise PyRaise(ZeroDivisionError, None, "integer division or modulo by zero")
        return _norm(sym.floormod(a, b))
    if t is ast.LShift:
        if not isinstance(b, int) and interp.truth(ctx.lt(b, 0)):
            raise PyRaise(ValueError, None, "negative shift count")
        if isinstance(b, int) and b < 0:
            raise PyRaise(ValueError, None, "negative shift count")
        return _norm(za * zint(ctx.pow2(b)))
    if t is ast.RShift:
        if not isinstance(b, int) and interp.truth(ctx.lt(b, 0)):
            raise PyRaise(ValueError, None, "negative shift count")
        if isinstance(b, int) and b < 0:
            raise PyRaise(ValueError, None, "negative shift count")
        p = ctx.pow2(b)
        if isinstance(p, int):
            return _norm(sym.floordiv(a, p))
        return _norm(za / zint(p))  # p >= 1: Euclidean == floor
    if t is ast.BitAnd:
        return _norm(bit_and(interp, a, b))
    if t is ast.BitOr:
        return _norm(bit_or(interp, a, b))
    if t is ast.BitXor:
        raise Unsupported("xor of symbolic integers (math mode)")
    if t is ast.Pow:
        if isinstance(a, int) and a == 2:
            return _norm(zint(ctx.pow2(b)))
        raise Unsupported("pow of symbolic integers")
    raise Unsupported(f"binary operator {t.__name__}")


def concretise(interp, n, lo, hi):
    """Case-split a small-range symbolic integer into a concrete one (exact: every case is explored)."""
    if isinstance(n, int):
        return n
    ctx = interp.ctx
    if not ctx.valid(z3.And(zint(n) >= lo, zint(n) <= hi)):
        raise Unsupported("cannot bound symbolic repetition count")
    # find candidates by walking models
    for k in range(lo, hi + 1):
        c = ctx.eq(n, k)
        if c is False:
            continue
        if c is True or ctx.branch(c):
            return k
    raise Infeasible()


def _pow2_mask(interp, m):
    """If m is (2^k - 1) for a pow2 term or If-tree of such, return the modulus term(s)."""
    m = z3.simplify(zint(m))
    # form: pow2(e) + -1   or  -1 + pow2(e)   or c*pow2(e) + -1
    if z3.is_add(m) and len(m.children()) == 2:
        a, b = m.children()
        if z3.is_int_value(a) and a.as_long() == -1:
            a, b = b, a
        if z3.is_int_value(b) and b.as_long() == -1 and _is_pow2_term(a):
            return a
    return None


def _is_pow2_term(t):
    if z3.is_app(t) and t.decl().name() == "pow2":
        return True
    if z3.is_mul(t) and len(t.children()) == 2:
        a, b = t.children()
        if z3.is_int_value(a) and sym.is_pow2_const(a.as_long()) and _is_pow2_term(b):
            return True
        if z3.is_int_value(b) and sym.is_pow2_const(b.as_long()) and _is_pow2_term(a):
            return True
    return False


def bit_and(interp, a, b):
    if isinstance(a, int) and not isinstance(b, int):
        a, b = b, a
    if isinstance(b, int):
        if b in (1, 3, 7, 15) and not interp.ctx.valid(z3.And(zint(a) >= 0, zint(a) <= 255)):
            # alignment idiom (-offset & (alignment - 1)): the result has at most 16 values; case-split it so
            # that positions stay linear (exact: every case is explored)
            r = _norm(zint(a) % (b + 1))
            if is_z3(r):
                for k in range(0, b + 1):
                    if interp.ctx.branch(interp.ctx.eq(r, k)):
                        return k
                raise Infeasible()
            return r
        if b > 0:
            runs = list(sym._runs(b))
            if len(runs) == 1:
                lo, hi = runs[0]
                za = zint(a)
                if interp.ctx.valid(z3.And(za >= 0, za < (1 << hi))):
                    # 0 <= a < 2^hi: a & mask keeps bits lo..hi-1
                    if hi == lo + 1:
                        return z3.If(za >= (1 << lo), z3.IntVal(1 << lo), z3.IntVal(0))
                    if lo == 0:
                        return za
                    return za - za % (1 << lo)
        return sym.and_const(a, b)
    # symbolic mask of the form 2^k - 1
    pm = _pow2_mask(interp, b)
    if pm is not None:
        return zint(a) % pm  # pm >= 1
    pm = _pow2_mask(interp, a)
    if pm is not None:
        return zint(b) % pm
    # If-tree masks
    zb = z3.simplify(zint(b))
    if z3.is_app(zb) and zb.decl().kind() == z3.Z3_OP_ITE:
        c, x, y = zb.children()
        return z3.If(c, zint(bit_and(interp, a, _norm(x))), zint(bit_and(interp, a, _norm(y))))
    raise Unsupported("bitwise and of two symbolic integers (math mode)")


def _factor_pow2(t):
    """t == c * P with P a power-of-two term/const: return P (z3 or int) else None."""
    if isinstance(t, int):
        if t == 0:
            return None
        return t & -t  # lowest set bit
    t = z3.simplify(t)
    if z3.is_int_value(t):
        return _factor_pow2(t.as_long())
    if z3.is_add(t):
        # a sum is a multiple of the smallest constant power of two dividing every addend
        fs = [_factor_pow2(ch) for ch in t.children()]
        if all(isinstance(f, int) for f in fs) and fs:
            return min(fs)
        return None
    if _is_pow2_term(t):
        return t
    if z3.is_mul(t):
        # product of the power-of-two parts of the factors
        P = 1
        for ch in t.children():
            if z3.is_int_value(ch):
                c = ch.as_long()
                if c == 0:
                    return None
                P = P * (c & -c) if isinstance(P, int) else P * z3.IntVal(c & -c)
            elif _is_pow2_term(ch):
                P = ch * z3.IntVal(P) if isinstance(P, int) else P * ch
        if isinstance(P, int):
            return P if P > 1 else None
        return z3.simplify(P)
    return None


def bit_or(interp, a, b):
    """a | b == a + b when b is a multiple of P=2^k and 0 <= a < P (proved before use)."""
    ctx = interp.ctx
    for x, y in ((a, b), (b, a)):
        P = _factor_pow2(y if isinstance(y, int) else zint(y))
        if P is None:
            continue
        zx = zint(x)
        if ctx.valid(z3.And(zx >= 0, zx < zint(P))):
            return zx + zint(y)
    if isinstance(a, int) and a == 0:
        return zint(b)
    if isinstance(b, int) and b == 0:
        return zint(a)
    raise Unsupported("bitwise or without provable disjointness (math mode)")


def bv_binop(interp, t, a, b):
    width = (a if isinstance(a, z3.BitVecRef) else b).size()

    def bv(x):
        if isinstance(x, z3.BitVecRef):
            return x
        if isinstance(x, bool):
            x = int(x)
        if isinstance(x, int):
            return z3.BitVecVal(x, width)
        raise Unsupported("mixing Int and BitVec")

    x, y = bv(a), bv(b)
    if t is ast.Add:
        return z3.simplify(x + y)
    if t is ast.Sub:
        return z3.simplify(x - y)
    if t is ast.Mult:
        return z3.simplify(x * y)
    if t is ast.BitAnd:
        return z3.simplify(x & y)
    if t is ast.BitOr:
        return z3.simplify(x | y)
    if t is ast.BitXor:
        return z3.simplify(x ^ y)
    if t is ast.LShift:
        return z3.simplify(x << y)
    if t is ast.RShift:
        return z3.simplify(x >> y)  # arithmetic shift: python ints are signed
    raise Unsupported(f"bit-vector operator {t.__name__}")


# comparisons -----------------------------------------------------------------------------------------


def compare(interp, op, a, b):
    ctx = interp.ctx
    t = type(op)
    if t is ast.Is:
        return a is b
    if t is ast.IsNot:
        return a is not b
    if t in (ast.In, ast.NotIn):
        r = contains(interp, b, a)
        if t is ast.NotIn:
            return (not r) if isinstance(r, bool) else z3.Not(r)
        return r
    if not (deep_symbolic(a) or deep_symbolic(b)) and not _has_sym_struct(a) and not _has_sym_struct(b):
        try:
            return {
                ast.Eq: operator.eq,
                ast.NotEq: operator.ne,
                ast.Lt: operator.lt,
                ast.LtE: operator.le,
                ast.Gt: operator.gt,
                ast.GtE: operator.ge,
            }[t](a, b)
        except Exception as ex:  # noqa: BLE001
            raise PyRaise(type(ex), ex, str(ex)) from None
    if t is ast.Eq:
        return deep_eq(interp, a, b)
    if t is ast.NotEq:
        r = deep_eq(interp, a, b)
        return (not r) if isinstance(r, bool) else _norm(z3.Not(r))
    a, b = strip(a), strip(b)
    if isinstance(a, z3.BitVecRef) or isinstance(b, z3.BitVecRef):
        w = (a if isinstance(a, z3.BitVecRef) else b).size()
        x = a if isinstance(a, z3.BitVecRef) else z3.BitVecVal(int(a), w)
        y = b if isinstance(b, z3.BitVecRef) else z3.BitVecVal(int(b), w)
        return _norm({ast.Lt: lambda: x < y, ast.LtE: lambda: x <= y, ast.Gt: lambda: x > y, ast.GtE: lambda: x >= y}[t]())
    za, zb = zint(a), zint(b)
    return _norm({ast.Lt: lambda: za < zb, ast.LtE: lambda: za <= zb, ast.Gt: lambda: za > zb, ast.GtE: lambda: za >= zb}[t]())


def _has_sym_struct(v):
    from dissect.cstruct.types.structure import StructureMetaType

    if isinstance(type(v), StructureMetaType):
        return any(deep_symbolic(x) or _has_sym_struct(x) for x in v.__dict__.values() if x is not v)
    if isinstance(v, (list, tuple)):
        return any(_has_sym_struct(x) for x in v)
    return False


def contains(interp, container, item):
    if isinstance(container, (dict, set, frozenset)) and not deep_symbolic(item):
        try:
            return item in container
        except TypeError as ex:
            raise PyRaise(TypeError, ex, str(ex)) from None
    if isinstance(container, (list, tuple, set, frozenset)):
        r = False
        for x in container:
            e = deep_eq(interp, x, item)
            if e is True:
                return True
            if e is False:
                continue
            r = e if r is False else z3.Or(r, e)
        return r
    if isinstance(container, (str, bytes)) and not deep_symbolic(item):
        return item in container
    if not deep_symbolic(container) and not deep_symbolic(item):
        try:
            return item in container
        except Exception as ex:  # noqa: BLE001
            raise PyRaise(type(ex), ex, str(ex)) from None
    raise Unsupported("membership test over symbolic container")


def deep_eq(interp, a, b):
    """Python == over the mixed domain (returns bool or z3 Bool)."""
    from dissect.cstruct.types.structure import StructureMetaType, UnionMetaType

    a, b = _unproxy(a), _unproxy(b)
    if isinstance(a, SEnum) or isinstance(b, SEnum):
        # Enum.__eq__/Flag.__eq__ semantics are interpreted from /repo when one side is a model enum
        if isinstance(a, SEnum):
            return _enum_eq(interp, a, b)
        return _enum_eq(interp, b, a)
    a, b = (strip(a) if isinstance(a, (SPtr, STyped)) else a), (strip(b) if isinstance(b, (SPtr, STyped)) else b)
    if a is None or b is None:
        return a is b
    if getattr(type(a), "_pyvc_model", False) or getattr(type(b), "_pyvc_model", False):
        return a is b  # engine stand-ins (fake types, streams) compare by identity
    if isinstance(a, (SBytes, bytes, bytearray)) and isinstance(b, (SBytes, bytes, bytearray)):
        return _norm(SBytes.of(a).eq(SBytes.of(b))) if True else None
    if isinstance(a, SStr) and isinstance(b, SStr):
        if a.endian == b.endian:
            return _norm(a.raw.eq(b.raw))
        return _norm(a.raw.eq(swap16(interp, b.raw)))
    if isinstance(a, SStr) and isinstance(b, str):
        return _norm(a.raw.eq(SBytes.of(b.encode("utf-16-" + a.endian))))
    if isinstance(b, SStr) and isinstance(a, str):
        return deep_eq(interp, b, a)
    if isinstance(a, SFloat) and isinstance(b, SFloat):
        return _norm(zint(a.bits) == zint(b.bits)) if a.width == b.width else False
    if isinstance(a, SFloat) and isinstance(b, (int, float)) and not isinstance(b, bool) and b == 0:
        return _norm(z3.Or(zint(a.bits) == 0, zint(a.bits) == (1 << (a.width - 1))))
    if isinstance(b, SFloat) and isinstance(a, (int, float)) and not isinstance(a, bool) and a == 0:
        return deep_eq(interp, b, a)
    if isinstance(a, SArr) and isinstance(b, SArr):
        return _norm(z3.And(zint(a.count) == zint(b.count), zbool(a.raw.eq(b.raw))))
    if isinstance(a, SArr) and isinstance(b, list):
        if len(b) == 0:
            return _norm(zint(a.count) == 0)
        raise Unsupported("comparison of symbolic-length array with list")
    if isinstance(b, SArr) and isinstance(a, list):
        return deep_eq(interp, b, a)
    if isinstance(a, (list, tuple)) and isinstance(b, (list, tuple)):
        if isinstance(a, tuple) != isinstance(b, tuple):
            return False
        if len(a) != len(b):
            return False
        r = True
        for x, y in zip(a, b):
            e = deep_eq(interp, x, y)
            if e is False:
                return False
            r = interp._and(r, e)
        return r
    if isinstance(a, dict) and isinstance(b, dict):
        if a.keys() != b.keys():
            return False
        r = True
        for k in a:
            e = deep_eq(interp, a[k], b[k])
            if e is False:
                return False
            r = interp._and(r, e)
        return r
    if isinstance(type(a), StructureMetaType) or isinstance(type(b), StructureMetaType):
        if type(a) is not type(b):
            return False
        # (Union.__eq__ compares the dumps; member-wise equality implies it and is what "the same value" means here)
        r = True
        for name in type(a).fields:
            e = deep_eq(interp, getattr(a, name), getattr(b, name))
            if e is False:
                return False
            r = interp._and(r, e)
        return r
    if (sym.is_intlike(a) or is_symbool(a)) and (sym.is_intlike(b) or is_symbool(b)):
        if isinstance(a, z3.BitVecRef) or isinstance(b, z3.BitVecRef):
            w = (a if isinstance(a, z3.BitVecRef) else b).size()
            x = a if isinstance(a, z3.BitVecRef) else z3.BitVecVal(int(a), w)
            y = b if isinstance(b, z3.BitVecRef) else z3.BitVecVal(int(b), w)
            return _norm(x == y)
        return _norm(zint(a) == zint(b))
    if not deep_symbolic(a) and not deep_symbolic(b):
        try:
            return a == b
        except Exception as ex:  # noqa: BLE001
            raise PyRaise(type(ex), ex, str(ex)) from None
    # different kinds (bytes vs int, ...) compare unequal in python
    kinds = lambda v: (  # noqa: E731
        "int" if sym.is_intlike(v) or is_symbool(v) else "bytes" if isinstance(v, (SBytes, bytes, bytearray)) else
        "str" if isinstance(v, (SStr, str)) else "float" if isinstance(v, (SFloat, float)) else
        "list" if isinstance(v, (SArr, list)) else type(v).__name__)
    if kinds(a) != kinds(b):
        if {kinds(a), kinds(b)} == {"int", "float"}:
            raise Unsupported("int/float comparison")
        return False
    raise Unsupported(f"equality of {type(a).__name__} and {type(b).__name__}")


def _unproxy(v):
    """UnionProxy wraps nested structures of a union; comparisons look through it (as UnionProxy.__getattr__ does)."""
    if type(v).__name__ == "UnionProxy":
        return object.__getattribute__(v, "__target__")
    return v


def _enum_eq(interp, a: SEnum, b):
    """Interpret the real Enum.__eq__ / Flag.__eq__ source on a model instance."""
    import types

    for k in a.cls.__mro__:
        if "__eq__" in k.__dict__ and isinstance(k.__dict__["__eq__"], types.FunctionType):
            return interp.call(k.__dict__["__eq__"], [a, b])
    raise Unsupported("enum equality")


# subscripts ------------------------------------------------------------------------------------------


def getitem(interp, obj, idx):
    ctx = interp.ctx
    if isinstance(obj, SBytes):
        n = obj.length()
        if isinstance(idx, slice):
            if idx.step not in (None, 1):
                raise Unsupported("bytes slice with step")
            lo, hi = strip(idx.start), strip(idx.stop)
            if isinstance(n, int) and (lo is None or isinstance(lo, int)) and (hi is None or isinstance(hi, int)):
                lo2, hi2, _ = slice(lo, hi).indices(n)
                hi2 = max(hi2, lo2)
                r = obj.slice_concrete(lo2, hi2)
                if r is None:
                    r = SBytes([obj.byte_at(i) for i in range(lo2, hi2)])
                return r
            # symbolic bounds: require 0 <= lo <= hi <= n provable
            lo = 0 if lo is None else lo
            hi = n if hi is None else hi
            if ctx.valid(z3.And(zint(lo) >= 0, zint(lo) <= zint(hi), zint(hi) <= zint(n))):
                ln = _norm(zint(hi) - zint(lo))
                return obj.extract(lo, ln)
            if isinstance(lo, int) and isinstance(hi, int) and lo >= 0 and hi >= 0 and ctx.valid(z3.And(zint(n) >= 0, zint(n) <= 64)):
                # a short buffer (delivered by a read that was not length-checked): Python clamps the slice; exact case split
                k = concretise(interp, n, 0, 64)
                lo2, hi2, _ = slice(lo, hi).indices(k)
                return SBytes([obj.byte_at(i) for i in range(lo2, max(hi2, lo2))])
            raise Unsupported("bytes slice with symbolic bounds not provably in range")
        idx = strip(idx)
        if isinstance(idx, int) and isinstance(n, int):
            if not -n <= idx < n:
                raise PyRaise(IndexError, None, "index out of range")
            b = obj.byte_at(idx % n)
        else:
            if not ctx.valid(z3.And(zint(idx) >= 0, zint(idx) < zint(n))):
                raise Unsupported("bytes index not provably in range")
            b = obj.byte_at(idx)
        if is_z3(b):
            ctx.assume_byte(b)
        return b
    if isinstance(obj, (SArr, SStr, SFloat)) or is_z3(obj):
        raise Unsupported(f"subscript of {type(obj).__name__}")
    if isinstance(obj, (SEnum, SPtr, STyped)):
        raise Unsupported("subscript of tagged scalar")
    if deep_symbolic(idx):
        raise Unsupported("symbolic index into native container")
    try:
        return obj[idx]
    except (Unsupported, Infeasible, PyRaise):
        raise
    except Exception as ex:  # noqa: BLE001
        raise PyRaise(type(ex), ex, str(ex)) from None
