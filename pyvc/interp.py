"""Symbolic interpreter for the Python subset dissect.cstruct is written in.

It executes the *real* source text (AST re-read from /repo on every run, or the generated reader's
``__source__``) over a mixed domain: concrete Python objects are used as they are (class objects,
Field objects, definitions), data are z3 terms. Functions defined in /repo are always interpreted
(never run natively), functions with a registered summary (contract) are replaced by the summary,
everything else (builtins, C code) is run natively when its arguments are concrete and through a
model otherwise. A construct without a model raises Unsupported -> the obligation is undecided.
"""
from __future__ import annotations

import ast
import builtins
import functools
import inspect
import io
import operator
import os
import sys
import types

import z3

from pyvc import sym
from pyvc.ctx import Ctx, Infeasible, PyRaise
from pyvc.stream import SymStream, WeakStream
from pyvc.sym import (
    SArr,
    SBytes,
    SEnum,
    SFloat,
    SPtr,
    SStr,
    STyped,
    Seg,
    Unsupported,
    deep_symbolic,
    is_intlike,
    is_symbool,
    is_symint,
    is_z3,
    strip,
    zbool,
    zint,
)

REPO_ROOT = os.environ.get("VERIF_REPO", "/repo")


class _Return(Exception):
    def __init__(self, value):
        self.value = value


class _Break(Exception):
    pass


class _Continue(Exception):
    pass


# --------------------------------------------------------------------------------------------------
# source lookup: the verified text is the text of the working tree


class SourceIndex:
    def __init__(self):
        self.modules = {}  # filename -> (tree, {(lineno,name): node}, {node: class qualname chain})
        self.gen_cache = {}
        self.used = {}  # qualname -> (file, lineno, sha) functions actually interpreted

    def _load(self, filename):
        if filename not in self.modules:
            with open(filename, "rb") as f:
                src = f.read()
            tree = ast.parse(src, filename)
            index = {}
            owner = {}

            def visit(node, classes):
                for ch in ast.iter_child_nodes(node):
                    if isinstance(ch, (ast.FunctionDef, ast.AsyncFunctionDef)):
                        first = ch.decorator_list[0].lineno if ch.decorator_list else ch.lineno
                        index[(first, ch.name)] = ch
                        index[(ch.lineno, ch.name)] = ch
                        owner[ch] = list(classes)
                        visit(ch, classes)
                    elif isinstance(ch, ast.Lambda):
                        index.setdefault((ch.lineno, "<lambda>"), []).append(ch)
                        owner[ch] = list(classes)
                        visit(ch, classes)
                    elif isinstance(ch, ast.ClassDef):
                        visit(ch, classes + [ch.name])
                    else:
                        visit(ch, classes)

            visit(tree, [])
            self.modules[filename] = (tree, index, owner, src)
        return self.modules[filename]

    def lookup(self, f):
        """Return (node, defining_class_or_None) for a python function object."""
        code = f.__code__
        if hasattr(f, "__source__"):
            key = id(code)
            if key not in self.gen_cache:
                tree = ast.parse(f.__source__)
                self.gen_cache[key] = tree.body[0]
            return self.gen_cache[key], None
        filename = code.co_filename
        if not filename.startswith(REPO_ROOT + "/"):
            return None, None
        tree, index, owner, src = self._load(filename)
        node = index.get((code.co_firstlineno, code.co_name))
        if isinstance(node, list):
            if len(node) != 1:
                raise Unsupported(f"ambiguous lambda at {filename}:{code.co_firstlineno}")
            node = node[0]
        if node is None:
            raise Unsupported(f"source of {f.__qualname__} not found at {filename}:{code.co_firstlineno}")
        classes = owner.get(node, [])
        defcls = None
        if classes:
            mod = sys.modules.get(f.__module__)
            obj = mod
            try:
                for c in classes:
                    obj = getattr(obj, c)
                defcls = obj
            except AttributeError:
                defcls = None
        self.used[f.__qualname__] = (os.path.relpath(filename, REPO_ROOT), code.co_firstlineno)
        return node, defcls


SOURCES = SourceIndex()


class Closure:
    """A function/lambda defined inside interpreted code."""

    def __init__(self, node, frame, name):
        self.node, self.frame, self.__name__ = node, frame, name


class Frame:
    def __init__(self, func, globals_, parent=None, defcls=None):
        self.func = func
        self.locals = {}
        self.globals = globals_
        self.parent = parent  # enclosing interpreted frame (for Closure)
        self.defcls = defcls
        self.nonlocals = set()
        self.loop_ordinal = 0
        self.qualname = getattr(func, "__qualname__", getattr(func, "__name__", "?"))

    def lookup(self, name):
        f = self
        while f is not None:
            if name in f.locals:
                return f.locals[name]
            f = f.parent
        fn = self.func
        if isinstance(fn, types.FunctionType) and fn.__closure__:
            fv = fn.__code__.co_freevars
            if name in fv:
                return fn.__closure__[fv.index(name)].cell_contents
        if name in self.globals:
            return self.globals[name]
        if hasattr(builtins, name):
            return getattr(builtins, name)
        raise PyRaise(NameError, None, f"name '{name}' is not defined")

    def store(self, name, value):
        if name in self.nonlocals:
            f = self.parent
            while f is not None:
                if name in f.locals:
                    f.locals[name] = value
                    return
                f = f.parent
        self.locals[name] = value


class SymMethod:
    """Bound method of a symbolic value (x.to_bytes, b.decode, ...)."""

    def __init__(self, recv, name):
        self.recv, self.name = recv, name


class Interp:
    def __init__(self, ctx: Ctx, summaries=None, loopspecs=None, unroll=None, max_depth=60, max_iters=400):
        self.ctx = ctx
        self.summaries = summaries or {}
        self.loopspecs = loopspecs or {}
        self.unroll = unroll  # bound for symbolic-length loops without invariant (None -> Unsupported)
        self.depth = 0
        self.max_depth = max_depth
        self.max_iters = max_iters
        self.stats = {"calls": 0, "native": 0, "summaries": 0}
        self.callstack = []
        ctx.interp = self

    # ---------------------------------------------------------------------------------- calls
    def call(self, f, args=(), kwargs=None):
        kwargs = kwargs or {}
        args = list(args)
        ctx = self.ctx
        self.stats["calls"] += 1
        # unwrap partial / bound methods
        if isinstance(f, functools.partial):
            return self.call(f.func, list(f.args) + args, {**f.keywords, **kwargs})
        if isinstance(f, types.MethodType):
            if getattr(f.__self__, "_pyvc_model", False):
                return f(*args, **kwargs)
            return self.call(f.__func__, [f.__self__] + args, kwargs)
        if isinstance(f, SymMethod):
            return self.sym_method(f.recv, f.name, args, kwargs)
        if isinstance(f, Closure):
            return self.call_ast(f.node, f, args, kwargs, f.frame.globals, parent=f.frame, defcls=f.frame.defcls)
        key = f
        try:
            hit = key in self.summaries
        except TypeError:
            hit = False
        if hit:
            self.stats["summaries"] += 1
            return self.summaries[key](self, *args, **kwargs)
        if isinstance(f, types.FunctionType):
            if f.__code__.co_flags & 0x20 and not (deep_symbolic(args) or deep_symbolic(kwargs)):
                # generator functions (the source generator of compiler.py) work on definitions only: run natively
                return self.native(f, args, kwargs)
            node, defcls = SOURCES.lookup(f)
            if node is not None:
                return self.call_ast(node, f, args, kwargs, f.__globals__, defcls=defcls)
            return self.native(f, args, kwargs)
        if isinstance(f, type):
            return self.instantiate(f, args, kwargs)
        # model objects' methods are MethodType (handled above) -> remaining: builtins, C functions
        if getattr(f, "_pyvc_model", False):
            return f(*args, **kwargs)
        return self.native(f, args, kwargs)

    def call_nosummary(self, f, args=(), kwargs=None):
        """Interpret the real body of f even if a summary is registered for it."""
        if isinstance(f, types.MethodType):
            return self.call_nosummary(f.__func__, [f.__self__] + list(args), kwargs)
        saved = self.summaries
        self.summaries = {k: v for k, v in saved.items() if k is not f}
        try:
            return self.call(f, args, kwargs)
        finally:
            self.summaries = saved

    def call_ast(self, node, func, args, kwargs, globals_, parent=None, defcls=None):
        if self.depth > self.max_depth:
            raise Unsupported("interpretation depth exceeded")
        frame = Frame(func, globals_, parent=parent, defcls=defcls)
        self.bind(node, func, frame, args, kwargs)
        self.depth += 1
        self.callstack.append(frame.qualname)
        try:
            if isinstance(node, ast.Lambda):
                return self.eval(node.body, frame)
            try:
                self.exec_block(node.body, frame)
            except _Return as r:
                return r.value
            return None
        finally:
            self.depth -= 1
            self.callstack.pop()

    def bind(self, node, func, frame, args, kwargs):
        a = node.args
        params = [p.arg for p in a.posonlyargs + a.args]
        # defaults: evaluate natively from the function object when available, else from AST in parent frame
        if isinstance(func, types.FunctionType):
            defaults = list(func.__defaults__ or ())
            kwdefaults = dict(func.__kwdefaults__ or {})
        else:
            defaults = [self.eval(d, frame.parent) for d in a.defaults]
            kwdefaults = {k.arg: self.eval(d, frame.parent) for k, d in zip(a.kwonlyargs, a.kw_defaults) if d is not None}
        args = list(args)
        n = len(params)
        for i, p in enumerate(params):
            if i < len(args):
                frame.locals[p] = args[i]
            elif p in kwargs:
                frame.locals[p] = kwargs.pop(p)
            else:
                di = i - (n - len(defaults))
                if di < 0:
                    raise PyRaise(TypeError, None, f"missing argument {p}")
                frame.locals[p] = defaults[di]
        extra = args[n:]
        if a.vararg:
            frame.locals[a.vararg.arg] = tuple(extra)
        elif extra:
            raise PyRaise(TypeError, None, "too many positional arguments")
        for k in a.kwonlyargs:
            if k.arg in kwargs:
                frame.locals[k.arg] = kwargs.pop(k.arg)
            elif k.arg in kwdefaults:
                frame.locals[k.arg] = kwdefaults[k.arg]
            else:
                raise PyRaise(TypeError, None, f"missing keyword argument {k.arg}")
        if a.kwarg:
            frame.locals[a.kwarg.arg] = dict(kwargs)
        elif kwargs:
            raise PyRaise(TypeError, None, f"unexpected keyword arguments {list(kwargs)}")

    def native(self, f, args, kwargs):
        from pyvc import models

        m = models.lookup(f)
        if m is not None and (deep_symbolic(args) or deep_symbolic(kwargs) or getattr(m, "always", False)):
            return m(self, *args, **kwargs)
        if deep_symbolic(args) or deep_symbolic(kwargs):
            if models.native_ok(f, args, kwargs):
                pass
            else:
                raise Unsupported(f"no model for native call {getattr(f, '__qualname__', f)!r} with symbolic arguments")
        self.stats["native"] += 1
        try:
            return f(*args, **kwargs)
        except (Unsupported, Infeasible, PyRaise):
            raise
        except Exception as e:  # noqa: BLE001 - a real Python exception of the code under verification
            raise PyRaise(type(e), e, str(e)) from None

    def instantiate(self, cls, args, kwargs):
        from pyvc import models

        m = models.lookup(cls)
        if m is not None and (deep_symbolic(args) or deep_symbolic(kwargs) or getattr(m, "always", False)):
            return m(self, *args, **kwargs)
        meta = type(cls)
        mcall = None
        for k in meta.__mro__:
            if "__call__" in k.__dict__:
                mcall = k.__dict__["__call__"]
                break
        if isinstance(mcall, types.FunctionType) and SOURCES.lookup(mcall)[0] is not None:
            return self.call(mcall, [cls] + list(args), kwargs)
        return self.type_call(cls, args, kwargs)

    def type_call(self, cls, args, kwargs):
        """type.__call__(cls, *args, **kwargs)"""
        from pyvc import models

        if deep_symbolic(args) or deep_symbolic(kwargs):
            r = models.construct(self, cls, args, kwargs)
            if r is not NotImplemented:
                return r
        # plain python class defined in /repo: interpret __init__
        init = None
        for k in cls.__mro__:
            if "__init__" in k.__dict__:
                init = k.__dict__["__init__"]
                break
        new = None
        for k in cls.__mro__:
            if "__new__" in k.__dict__:
                new = k.__dict__["__new__"]
                break
        if (
            isinstance(init, types.FunctionType)
            and SOURCES.lookup(init)[0] is not None
            and (new is object.__new__ or new is None or isinstance(new, staticmethod) is False and new is object.__new__)
        ):
            obj = object.__new__(cls)
            self.call(init, [obj] + list(args), kwargs)
            return obj
        return self.native(type.__call__, [cls] + list(args), kwargs) if False else self._native_construct(cls, args, kwargs)

    def _native_construct(self, cls, args, kwargs):
        self.stats["native"] += 1
        try:
            return type.__call__(cls, *args, **kwargs)
        except (Unsupported, Infeasible, PyRaise):
            raise
        except Exception as e:  # noqa: BLE001
            raise PyRaise(type(e), e, str(e)) from None

    # ---------------------------------------------------------------------------------- statements
    def exec_block(self, stmts, frame):
        for s in stmts:
            self.exec(s, frame)

    def exec(self, s, frame):
        m = getattr(self, "x_" + type(s).__name__, None)
        if m is None:
            raise Unsupported(f"statement {type(s).__name__}")
        return m(s, frame)

    def x_Expr(self, s, frame):
        self.eval(s.value, frame)

    def x_Pass(self, s, frame):
        pass

    def x_Return(self, s, frame):
        raise _Return(self.eval(s.value, frame) if s.value is not None else None)

    def x_Break(self, s, frame):
        raise _Break()

    def x_Continue(self, s, frame):
        raise _Continue()

    def x_Nonlocal(self, s, frame):
        frame.nonlocals.update(s.names)

    def x_Global(self, s, frame):
        raise Unsupported("global statement")

    def x_Import(self, s, frame):
        for a in s.names:
            mod = __import__(a.name)
            frame.store((a.asname or a.name).split(".")[0], mod)

    def x_ImportFrom(self, s, frame):
        import importlib

        mod = importlib.import_module(s.module)
        for a in s.names:
            try:
                v = getattr(mod, a.name)
            except AttributeError:
                v = importlib.import_module(f"{s.module}.{a.name}")
            frame.store(a.asname or a.name, v)

    def x_Assert(self, s, frame):
        if not self.truth(self.eval(s.test, frame)):
            raise PyRaise(AssertionError, None, "assert")

    def x_Assign(self, s, frame):
        v = self.eval(s.value, frame)
        for t in s.targets:
            self.assign(t, v, frame)

    def x_AnnAssign(self, s, frame):
        if s.value is not None:
            self.assign(s.target, self.eval(s.value, frame), frame)

    def x_AugAssign(self, s, frame):
        t = s.target
        if isinstance(t, ast.Name):
            cur = frame.lookup(t.id)
            frame.store(t.id, self.binop(s.op, cur, self.eval(s.value, frame), inplace=True))
        elif isinstance(t, ast.Attribute):
            obj = self.eval(t.value, frame)
            cur = self.getattr(obj, t.attr)
            self.setattr(obj, t.attr, self.binop(s.op, cur, self.eval(s.value, frame), inplace=True))
        elif isinstance(t, ast.Subscript):
            obj = self.eval(t.value, frame)
            idx = self.eval_index(t.slice, frame)
            cur = self.getitem(obj, idx)
            self.setitem(obj, idx, self.binop(s.op, cur, self.eval(s.value, frame), inplace=True))
        else:
            raise Unsupported("augassign target")

    def assign(self, t, v, frame):
        if isinstance(t, ast.Name):
            frame.store(t.id, v)
        elif isinstance(t, ast.Attribute):
            self.setattr(self.eval(t.value, frame), t.attr, v)
        elif isinstance(t, ast.Subscript):
            self.setitem(self.eval(t.value, frame), self.eval_index(t.slice, frame), v)
        elif isinstance(t, (ast.Tuple, ast.List)):
            vals = self.iterate(v)
            if any(isinstance(e, ast.Starred) for e in t.elts):
                raise Unsupported("starred assignment")
            if len(vals) != len(t.elts):
                raise PyRaise(ValueError, None, "unpack length mismatch")
            for e, x in zip(t.elts, vals):
                self.assign(e, x, frame)
        else:
            raise Unsupported(f"assignment target {type(t).__name__}")

    def x_Delete(self, s, frame):
        for t in s.targets:
            if isinstance(t, ast.Name):
                frame.locals.pop(t.id, None)
            elif isinstance(t, ast.Subscript):
                obj = self.eval(t.value, frame)
                idx = self.eval_index(t.slice, frame)
                del obj[idx]
            else:
                raise Unsupported("del target")

    def x_If(self, s, frame):
        if self.truth(self.eval(s.test, frame)):
            self.exec_block(s.body, frame)
        else:
            self.exec_block(s.orelse, frame)

    def x_FunctionDef(self, s, frame):
        if s.decorator_list:
            raise Unsupported("decorated nested function")
        frame.store(s.name, Closure(s, frame, s.name))

    def x_Raise(self, s, frame):
        if s.exc is None:
            cur = getattr(frame, "current_exc", None)
            f = frame
            while cur is None and f is not None:
                cur = getattr(f, "current_exc", None)
                f = f.parent
            if cur is None:
                raise Unsupported("bare raise outside handler")
            raise cur
        e = self.eval(s.exc, frame)
        if isinstance(e, type) and issubclass(e, BaseException):
            raise PyRaise(e, None, "")
        if isinstance(e, BaseException):
            raise PyRaise(type(e), e, str(e))
        raise Unsupported("raise of non-exception")

    def x_Try(self, s, frame):
        try:
            try:
                self.exec_block(s.body, frame)
            except PyRaise as pr:
                for h in s.handlers:
                    if h.type is None:
                        match = True
                    else:
                        ht = self.eval(h.type, frame)
                        match = issubclass(pr.cls, ht)
                    if match:
                        if h.name:
                            frame.store(h.name, pr.obj if pr.obj is not None else pr.cls(pr.msg))
                        prev = getattr(frame, "current_exc", None)
                        frame.current_exc = pr
                        try:
                            self.exec_block(h.body, frame)
                        finally:
                            frame.current_exc = prev
                        break
                else:
                    raise
            else:
                self.exec_block(s.orelse, frame)
        finally:
            if s.finalbody:
                # note: runs also while an engine-internal exception (Infeasible/Unsupported) unwinds; harmless
                exc = sys.exc_info()[0]
                if exc is None or not issubclass(exc, (Infeasible, Unsupported)):
                    self.exec_block(s.finalbody, frame)

    def x_With(self, s, frame):
        raise Unsupported("with statement")

    # loops ------------------------------------------------------------------------------------
    def _loopspec(self, frame):
        n = frame.loop_ordinal
        frame.loop_ordinal += 1
        return self.loopspecs.get((frame.qualname, n)), n

    def x_While(self, s, frame):
        spec, n = self._loopspec(frame)
        if spec is not None:
            return self.cut_loop(s, frame, spec, n, kind="while")
        iters = 0
        sym_iters = 0
        while True:
            mark = len(self.ctx.trace)
            if not self.truth(self.eval(s.test, frame)):
                self.exec_block(s.orelse, frame)
                return
            try:
                self.exec_block(s.body, frame)
            except _Break:
                return
            except _Continue:
                pass
            iters += 1
            if len(self.ctx.trace) > mark:
                # this iteration depended on symbolic data: data-dependent loop without an invariant.
                # With a stated unroll bound the longer executions are cut (and the result is labelled
                # bounded); without one the obligation is undecided.
                sym_iters += 1
                if self.unroll is None:
                    if sym_iters > 64:
                        raise Unsupported(f"data-dependent loop in {frame.qualname} without invariant or unroll bound")
                elif sym_iters > self.unroll:
                    self.ctx.ex.flags.add(f"bounded-unroll<={self.unroll}")
                    raise Infeasible()
            if iters > self.max_iters:
                raise Unsupported(f"loop in {frame.qualname} exceeded {self.max_iters} iterations without invariant")

    def cut_loop(self, s, frame, spec, n, kind):
        """Inductive-invariant rule: establish; havoc+assume; one arbitrary iteration; preserve."""
        tag = f"{frame.qualname}/loop{n}"
        try:
            g0 = spec.establish(self, frame, tag)
            g = spec.havoc(self, frame, g0)
        except (KeyError, TypeError, AttributeError, IndexError) as e:
            # the invariant names a local variable that no longer exists or no longer has the expected shape (renamed /
            # restructured loop): the obligation is undecided, never a verdict
            raise Unsupported(f"loop contract of {tag} does not fit the loop (local missing or of another shape): {type(e).__name__}: {e}") from None
        if kind == "while":
            cond = self.truth(self.eval(s.test, frame))
        else:
            cond = spec.for_guard(self, frame, g)  # binds the loop variable when True
        if not cond:
            spec.at_exit(self, frame, g)
            self.exec_block(s.orelse, frame)
            return
        try:
            self.exec_block(s.body, frame)
        except _Break:
            spec.at_break(self, frame, g)
            return
        except _Continue:
            pass
        try:
            spec.preserve(self, frame, g, tag)
        except (KeyError, TypeError, AttributeError, IndexError) as e:
            raise Unsupported(f"loop contract of {tag} does not fit the loop (local missing or of another shape): {type(e).__name__}: {e}") from None
        raise Infeasible()  # cut: the arbitrary iteration ends here

    def x_For(self, s, frame):
        spec, n = self._loopspec(frame)
        if spec is not None:
            return self.cut_loop(s, frame, spec, n, kind="for")
        it = self.eval(s.iter, frame)
        for v in self.iterate(it):
            self.assign(s.target, v, frame)
            try:
                self.exec_block(s.body, frame)
            except _Break:
                return
            except _Continue:
                continue
        self.exec_block(s.orelse, frame)

    def iterate(self, it):
        """Materialise an iterable as a python list (symbolic-length iterables: bounded unroll)."""
        if isinstance(it, SBytes):
            n = it.length()
            if isinstance(n, int):
                return [it.byte_at(i) for i in range(n)]
            raise Unsupported("iteration over bytes of symbolic length")
        if isinstance(it, SymRange):
            return it.materialise(self)
        if isinstance(it, SArr):
            raise Unsupported("iteration over symbolic-length array")
        if is_z3(it):
            raise Unsupported("iteration over symbolic scalar")
        if isinstance(it, (list, tuple, dict, set, frozenset, range, str, bytes, bytearray)):
            return list(it)
        if isinstance(it, (types.GeneratorType,)) or hasattr(it, "__next__"):
            return list(it)
        if hasattr(it, "__iter__"):
            try:
                return list(it)
            except (Unsupported, Infeasible, PyRaise):
                raise
            except Exception as e:  # noqa: BLE001
                raise PyRaise(type(e), e, str(e)) from None
        raise PyRaise(TypeError, None, "object is not iterable")

    # ---------------------------------------------------------------------------------- expressions
    def eval(self, e, frame):
        m = getattr(self, "e_" + type(e).__name__, None)
        if m is None:
            raise Unsupported(f"expression {type(e).__name__}")
        return m(e, frame)

    def e_Constant(self, e, frame):
        return e.value

    def e_Name(self, e, frame):
        return frame.lookup(e.id)

    def e_NamedExpr(self, e, frame):
        v = self.eval(e.value, frame)
        frame.store(e.target.id, v)
        return v

    def e_Attribute(self, e, frame):
        return self.getattr(self.eval(e.value, frame), e.attr)

    def e_Subscript(self, e, frame):
        return self.getitem(self.eval(e.value, frame), self.eval_index(e.slice, frame))

    def eval_index(self, sl, frame):
        if isinstance(sl, ast.Slice):
            return slice(
                self.eval(sl.lower, frame) if sl.lower else None,
                self.eval(sl.upper, frame) if sl.upper else None,
                self.eval(sl.step, frame) if sl.step else None,
            )
        return self.eval(sl, frame)

    def e_Slice(self, e, frame):
        return self.eval_index(e, frame)

    def e_Tuple(self, e, frame):
        return tuple(self.eval_seq(e.elts, frame))

    def e_List(self, e, frame):
        return list(self.eval_seq(e.elts, frame))

    def e_Set(self, e, frame):
        return set(self.eval_seq(e.elts, frame))

    def eval_seq(self, elts, frame):
        out = []
        for x in elts:
            if isinstance(x, ast.Starred):
                sv = self.eval(x.value, frame)
                if isinstance(sv, SArr):
                    out.append(StarArr(sv))
                    continue
                out.extend(self.iterate(sv))
            else:
                out.append(self.eval(x, frame))
        return out

    def e_Dict(self, e, frame):
        d = {}
        for k, v in zip(e.keys, e.values):
            if k is None:
                d.update(self.eval(v, frame))
            else:
                d[self.eval(k, frame)] = self.eval(v, frame)
        return d

    def e_JoinedStr(self, e, frame):
        parts = []
        symbolic = False
        for v in e.values:
            if isinstance(v, ast.Constant):
                parts.append(v.value)
            else:
                x = self.eval(v.value, frame)
                if deep_symbolic(x):
                    symbolic = True
                    parts.append(strip(x))
                else:
                    spec = self.eval(v.format_spec, frame) if v.format_spec else ""
                    if isinstance(spec, SymFStr):
                        symbolic = True
                        parts.append(x)
                        continue
                    if v.conversion == ord("r"):
                        x = repr(x)
                    elif v.conversion == ord("s"):
                        x = str(x)
                    elif v.conversion == ord("a"):
                        x = ascii(x)
                    try:
                        parts.append(format(x, spec))
                    except Exception as ex:  # noqa: BLE001
                        raise PyRaise(type(ex), ex, str(ex)) from None
        if symbolic:
            return SymFStr(parts)
        return "".join(parts)

    def e_IfExp(self, e, frame):
        if self.truth(self.eval(e.test, frame)):
            return self.eval(e.body, frame)
        return self.eval(e.orelse, frame)

    def e_Lambda(self, e, frame):
        return Closure(e, frame, "<lambda>")

    def e_BoolOp(self, e, frame):
        if self.ctx.pure:
            vals = [self.eval(v, frame) for v in e.values]
            if all(isinstance(v, bool) or is_symbool(v) for v in vals):
                zs = [zbool(v) for v in vals]
                return z3.And(*zs) if isinstance(e.op, ast.And) else z3.Or(*zs)
        is_and = isinstance(e.op, ast.And)
        v = None
        for sub in e.values:
            v = self.eval(sub, frame)
            t = self.truth(v)
            if is_and and not t:
                return v
            if not is_and and t:
                return v
        return v

    def e_UnaryOp(self, e, frame):
        v = self.eval(e.operand, frame)
        if isinstance(e.op, ast.Not):
            if is_symbool(v):
                return z3.Not(v)
            return not self.truth(v)
        v = strip(v)
        if not deep_symbolic(v):
            try:
                return {ast.USub: operator.neg, ast.UAdd: operator.pos, ast.Invert: operator.invert}[type(e.op)](v)
            except Exception as ex:  # noqa: BLE001
                raise PyRaise(type(ex), ex, str(ex)) from None
        if isinstance(v, z3.BitVecRef):
            return {ast.USub: lambda x: -x, ast.UAdd: lambda x: x, ast.Invert: lambda x: ~x}[type(e.op)](v)
        z = zint(v)
        if isinstance(e.op, ast.USub):
            return -z
        if isinstance(e.op, ast.UAdd):
            return z
        if isinstance(e.op, ast.Invert):
            return -z - 1
        raise Unsupported("unary op")

    def e_BinOp(self, e, frame):
        return self.binop(e.op, self.eval(e.left, frame), self.eval(e.right, frame))

    def e_Compare(self, e, frame):
        left = self.eval(e.left, frame)
        result = None
        for op, rnode in zip(e.ops, e.comparators):
            right = self.eval(rnode, frame)
            r = self.compare(op, left, right)
            if len(e.ops) == 1:
                return r
            if result is None:
                result = r
            else:
                result = self._and(result, r)
            if result is False:
                return False
            left = right
        return result

    def _and(self, a, b):
        if a is True:
            return b
        if b is True:
            return a
        if a is False or b is False:
            return False
        return z3.And(zbool(a), zbool(b))

    def e_Call(self, e, frame):
        # super() without arguments
        if isinstance(e.func, ast.Name) and e.func.id == "super" and not e.args:
            first = None
            fn = frame
            node_args = None
            # first positional parameter of the enclosing function
            if isinstance(frame.func, types.FunctionType):
                names = frame.func.__code__.co_varnames
                first = frame.locals.get(names[0]) if names else None
            if frame.defcls is None or first is None:
                raise Unsupported("zero-argument super() outside a method")
            return SuperProxy(frame.defcls, first)
        f = self.eval(e.func, frame)
        args = self.eval_seq(e.args, frame)
        kwargs = {}
        for k in e.keywords:
            if k.arg is None:
                kwargs.update(self.eval(k.value, frame))
            else:
                kwargs[k.arg] = self.eval(k.value, frame)
        return self.call(f, args, kwargs)

    def e_ListComp(self, e, frame):
        return self.comprehension(e, frame, "list")

    def e_GeneratorExp(self, e, frame):
        return self.comprehension(e, frame, "list")

    def e_SetComp(self, e, frame):
        return set(self.comprehension(e, frame, "list"))

    def e_DictComp(self, e, frame):
        return dict(self.comprehension(e, frame, "dict"))

    def comprehension(self, e, frame, kind):
        inner = Frame(frame.func, frame.globals, parent=frame, defcls=frame.defcls)
        inner.qualname = frame.qualname
        out = []
        if kind == "list" and len(e.generators) == 1 and not e.generators[0].ifs:
            it0 = self.eval(e.generators[0].iter, frame)
            if isinstance(it0, SArr):
                # element-wise map over an opaque array: only the identity map is modelled
                x = self.ctx.fresh_int("elt")
                self.assign(e.generators[0].target, x, inner)
                r = strip(self.eval(e.elt, inner))
                if is_z3(r) and z3.eq(r, x):
                    return it0
                raise Unsupported("non-identity comprehension over symbolic-length array")
            its = [it0]
        else:
            its = None

        def rec(i):
            if i == len(e.generators):
                if kind == "dict":
                    out.append((self.eval(e.key, inner), self.eval(e.value, inner)))
                else:
                    out.append(self.eval(e.elt, inner))
                return
            g = e.generators[i]
            it = its[0] if (its is not None and i == 0) else self.eval(g.iter, inner if i else frame)
            for v in self.iterate(it):
                self.assign(g.target, v, inner)
                if all(self.truth(self.eval(c, inner)) for c in g.ifs):
                    rec(i + 1)

        rec(0)
        return out

    def e_Starred(self, e, frame):
        raise Unsupported("starred expression")

    # ---------------------------------------------------------------------------------- primitives
    def truth(self, v) -> bool:
        if isinstance(v, bool):
            return v
        if v is None:
            return False
        if is_symbool(v):
            return self.ctx.branch(v)
        if isinstance(v, z3.BitVecRef):
            return self.ctx.branch(v != 0)
        if is_symint(v):
            return self.ctx.branch(v != 0)
        if isinstance(v, (SEnum, SPtr, STyped)):
            return self.truth(self.ctx.ne(v.value, 0))
        if isinstance(v, SBytes):
            return self.truth(self.ctx.ne(v.length(), 0))
        if isinstance(v, SArr):
            return self.truth(self.ctx.ne(v.count, 0))
        if isinstance(v, SStr):
            return self.truth(self.ctx.ne(v.raw.length(), 0))
        if isinstance(v, SFloat):
            # +0.0 / -0.0 are falsy
            w = v.width
            return self.truth(z3.Not(z3.Or(zint(v.bits) == 0, zint(v.bits) == (1 << (w - 1)))))
        from pyvc import models

        r = models.truth(self, v)
        if r is not NotImplemented:
            return r
        try:
            return bool(v)
        except Exception as ex:  # noqa: BLE001
            raise PyRaise(type(ex), ex, str(ex)) from None

    def getattr(self, obj, name):
        from pyvc import models

        if is_z3(obj) or isinstance(obj, (SBytes, SStr, SFloat, SArr)):
            return models.sym_getattr(self, obj, name)
        if isinstance(obj, (SEnum, SPtr, STyped)):
            return models.tagged_getattr(self, obj, name)
        if isinstance(obj, SuperProxy):
            return obj.getattr(name)
        try:
            return getattr(obj, name)
        except AttributeError as ex:
            # class-level __getattr__ defined in /repo (cstruct.__getattr__, Pointer.__getattr__) is python code
            raise PyRaise(AttributeError, ex, str(ex)) from None
        except (Unsupported, Infeasible, PyRaise):
            raise
        except Exception as ex:  # noqa: BLE001
            raise PyRaise(type(ex), ex, str(ex)) from None

    def setattr(self, obj, name, v):
        if isinstance(obj, (SEnum, STyped)) or is_z3(obj):
            raise Unsupported("setattr on symbolic scalar")
        # classes with a python-level __setattr__ in /repo (Union, UnionProxy): interpret it
        sa = None
        for k in type(obj).__mro__:
            if "__setattr__" in k.__dict__:
                sa = k.__dict__["__setattr__"]
                break
        if isinstance(sa, types.FunctionType) and SOURCES.lookup(sa)[0] is not None:
            return self.call(sa, [obj, name, v])
        try:
            setattr(obj, name, v)
        except Exception as ex:  # noqa: BLE001
            raise PyRaise(type(ex), ex, str(ex)) from None

    def getitem(self, obj, idx):
        from pyvc import models

        return models.getitem(self, obj, idx)

    def setitem(self, obj, idx, v):
        if deep_symbolic(idx):
            raise Unsupported("store with symbolic index")
        try:
            obj[idx] = v
        except Exception as ex:  # noqa: BLE001
            raise PyRaise(type(ex), ex, str(ex)) from None

    def binop(self, op, a, b, inplace=False):
        from pyvc import models

        return models.binop(self, op, a, b, inplace)

    def compare(self, op, a, b):
        from pyvc import models

        return models.compare(self, op, a, b)

    def sym_method(self, recv, name, args, kwargs):
        from pyvc import models

        return models.sym_method(self, recv, name, args, kwargs)


class SuperProxy:
    """super() inside interpreted code: attribute lookup starts after defcls in the MRO of the receiver."""

    def __init__(self, defcls, recv):
        self.defcls, self.recv = defcls, recv

    def getattr(self, name):
        recv = self.recv
        if isinstance(recv, type):
            # classmethod / metaclass method context
            if isinstance(self.defcls, type) and issubclass(recv, self.defcls) and not isinstance(recv, self.defcls):
                return getattr(super(self.defcls, recv), name)
            return getattr(super(self.defcls, recv), name)
        return getattr(super(self.defcls, recv), name)


class StarArr:
    """*args expansion of a symbolic-length array (only Struct.pack understands it)."""

    def __init__(self, arr):
        self.arr = arr


class SymFStr:
    """An f-string with symbolic parts (only the packed format '<count><char>' is ever inspected)."""

    def __init__(self, parts):
        self.parts = parts

    def __repr__(self):
        return "SymFStr(%r)" % (self.parts,)


class SymRange:
    def __init__(self, start, stop, step=1):
        self.start, self.stop, self.step = start, stop, step

    def materialise(self, interp):
        if interp.unroll is None:
            raise Unsupported("range() with symbolic bound and no loop invariant")
        if self.step != 1 or not isinstance(self.start, int):
            raise Unsupported("symbolic range with step/start")
        n = z3.simplify(zint(self.stop) - self.start)
        ctx = interp.ctx
        for k in range(0, interp.unroll + 1):
            if ctx.branch(ctx.le(n, k)):
                ctx.ex.flags.add(f"bounded-unroll<={interp.unroll}")
                return list(range(self.start, self.start + k))
        # longer than the bound: excluded (stated bound)
        ctx.ex.flags.add(f"bounded-unroll<={interp.unroll}")
        raise Infeasible()
