"""Path exploration (re-execution DFS over branch decisions), path condition, obligations."""
from __future__ import annotations

import time

import z3

from pyvc.sym import Unsupported, is_z3, pow2f, zint, zbool, strip


class Infeasible(Exception):
    """Current path is pruned (assumption contradicts the path condition, or a loop cut)."""


class PyRaise(Exception):
    """A Python exception raised by the code under verification."""

    def __init__(self, cls, obj=None, msg=""):
        super().__init__(f"{cls.__name__}: {msg}")
        self.cls, self.obj, self.msg = cls, obj, msg


class Obligation:
    __slots__ = ("name", "status", "model", "time", "backend", "info", "path", "concrete")

    def __init__(self, name, status, model=None, t=0.0, backend="z3", info=None, path=None, concrete=False):
        self.name, self.status, self.model, self.time, self.backend, self.info, self.path = (
            name,
            status,
            model,
            t,
            backend,
            info,
            path,
        )
        self.concrete = concrete  # the goal was a python bool: a concrete evaluation of the real code

    def as_dict(self):
        return {
            "name": self.name,
            "status": self.status,
            "backend": self.backend,
            "time_s": round(self.time, 4),
            "info": self.info,
        }


class Explorer:
    """Runs body(ctx) once per feasible path. Collects obligations."""

    def __init__(self, timeout_ms=10000, max_paths=20000, name="", branch_timeout_ms=2000, budget_s=None):
        self.deadline = (time.time() + budget_s) if budget_s else None
        self.timeout_ms = timeout_ms
        self.branch_timeout_ms = branch_timeout_ms
        self.max_paths = max_paths
        self.name = name
        self.obligations: list[Obligation] = []
        self.paths = 0
        self.undecided_reasons: list[str] = []
        self.solver_time = 0.0
        self.queries = 0
        self.flags = set()
        self.cover_hits = {}

    def explore(self, body):
        stack = [[]]
        while stack:
            prefix = stack.pop()
            if self.paths >= self.max_paths:
                self.undecided_reasons.append("max_paths exceeded")
                self.obligations.append(Obligation(f"{self.name}/exploration", "undecided", info=f"max_paths {self.max_paths} exceeded"))
                break
            if self.deadline is not None and time.time() > self.deadline:
                self.undecided_reasons.append("case time budget exceeded")
                self.obligations.append(Obligation(f"{self.name}/exploration", "undecided", info="case time budget exceeded"))
                break
            ctx = Ctx(self, prefix)
            self.paths += 1
            try:
                body(ctx)
            except Infeasible:
                pass
            except Unsupported as e:
                self.undecided_reasons.append(f"unsupported: {e}")
                self.obligations.append(Obligation(f"{self.name}/path{self.paths}/unsupported", "undecided", info=str(e)))
            stack.extend(ctx.pending)
        # vacuity guard: every cover point must have been reached on at least one feasible path
        for name, hits in self.cover_hits.items():
            full = f"{self.name}/{name}/cover" if self.name else f"{name}/cover"
            self.obligations.append(Obligation(full, "proved" if hits > 0 else "failed", backend="reachability", info=f"{hits} feasible paths"))
        return self

    # summary helpers
    def counts(self):
        c = {"proved": 0, "failed": 0, "undecided": 0}
        for o in self.obligations:
            c[o.status] += 1
        return c


class Ctx:
    def __init__(self, explorer: Explorer, prefix):
        self.ex = explorer
        self.prefix = list(prefix)
        self.trace: list[bool] = []
        self.pending: list[list[bool]] = []
        self.pc: list = []
        self.solver = z3.Solver()  # full path condition: used to discharge obligations
        self.solver.set("timeout", explorer.timeout_ms)
        # light solver: path condition without the "heavy" facts (recursive spec functions, sequence
        # equations). Used only for branch feasibility; a subset of the assumptions over-approximates
        # the feasible paths, which is sound for proving.
        self.light = z3.Solver()
        self.light.set("timeout", explorer.branch_timeout_ms)
        self._lits = {}
        self._n = 0
        self._bytes_seen = set()
        self._pow2_terms = {}
        self.ghost = {}
        self.pure = False  # when True, and/or build terms instead of branching (contract expressions)

    # -- fresh symbols (deterministic names so that re-execution reproduces the same terms)
    def fresh(self, base: str) -> str:
        self._n += 1
        return f"{base}!{self._n}"

    def fresh_int(self, base="i"):
        return z3.Int(self.fresh(base))

    def fresh_bool(self, base="b"):
        return z3.Bool(self.fresh(base))

    # -- path condition
    def assume(self, c, heavy=False):
        if c is True:
            return
        if c is False:
            raise Infeasible()
        c = zbool(c)
        self.pc.append(c)
        self.solver.add(c)
        if not heavy:
            self.light.add(c)
            self._lits[c.get_id()] = True

    def assume_byte(self, t):
        k = t.get_id()
        if k in self._bytes_seen:
            return
        self._bytes_seen.add(k)
        c = z3.And(t >= 0, t <= 255)
        self.pc.append(c)
        self.solver.add(c)
        self.light.add(c)

    def _check(self, *assumptions):
        t0 = time.time()
        if self.ex.deadline is not None and t0 > self.ex.deadline:
            return z3.unknown
        r = self.solver.check(*assumptions)
        self.ex.solver_time += time.time() - t0
        self.ex.queries += 1
        return r

    def _check_light(self, *assumptions):
        t0 = time.time()
        r = self.light.check(*assumptions)
        self.ex.solver_time += time.time() - t0
        self.ex.queries += 1
        return r

    def _add_lit(self, lit, d, c):
        self.pc.append(lit)
        self.solver.add(lit)
        self.light.add(lit)
        self._lits[c.get_id()] = d

    def branch(self, c) -> bool:
        """Decide a symbolic condition on this path; schedule the other side if it is feasible too."""
        if isinstance(c, bool):
            return c
        c = z3.simplify(zbool(c))
        if z3.is_true(c):
            return True
        if z3.is_false(c):
            return False
        known = self._lits.get(c.get_id())
        if known is not None:
            return known
        k = len(self.trace)
        if k < len(self.prefix):
            d = self.prefix[k]
            self.trace.append(d)
            self._add_lit(c if d else z3.Not(c), d, c)
            return d
        rt = self._check_light(c)
        rf = self._check_light(z3.Not(c))
        t_ok = rt != z3.unsat
        f_ok = rf != z3.unsat
        if not t_ok and not f_ok:
            raise Infeasible()
        if t_ok and f_ok:
            self.pending.append(self.trace + [False])
            d = True
        else:
            d = t_ok
        self.trace.append(d)
        self._add_lit(c if d else z3.Not(c), d, c)
        return d

    def valid(self, c) -> bool:
        """Is c implied by the path condition? (quiet side-condition query; unknown -> False)"""
        if isinstance(c, bool):
            return c
        c = z3.simplify(zbool(c))
        if z3.is_true(c):
            return True
        if z3.is_false(c):
            return False
        if self._lits.get(c.get_id()) is True:
            return True
        if self._check_light(z3.Not(c)) == z3.unsat:
            return True
        return self._check(z3.Not(c)) == z3.unsat

    def feasible(self, c=True) -> bool:
        if c is True:
            return self._check_light() != z3.unsat
        return self._check_light(zbool(c)) != z3.unsat

    # -- obligations
    def prove(self, name: str, goal, info=None):
        full = f"{self.ex.name}/{name}" if self.ex.name else name
        if isinstance(goal, bool):
            if goal:
                self.ex.obligations.append(Obligation(full, "proved", backend="syntactic", info=info))
                return True
            # concrete false: a definite failure iff this path is really feasible (branch feasibility was only
            # checked against the light path condition, and "unknown" counted as feasible)
            r = self._check()
            if r == z3.sat:
                self.ex.obligations.append(Obligation(full, "failed", model=self.solver.model(), backend="z3", info=info, path=list(self.trace), concrete=True))
                return False
            if r == z3.unsat:
                self.ex.obligations.append(Obligation(full, "proved", backend="z3", info=f"infeasible path; {info or ''}"))
                return True
            self.ex.obligations.append(Obligation(full, "undecided", info=f"path feasibility unknown: {self.solver.reason_unknown()}; {info or ''}"))
            return False
        goal = zbool(goal)
        t0 = time.time()
        r = self._check(z3.Not(goal))
        dt = time.time() - t0
        if r == z3.unsat:
            self.ex.obligations.append(Obligation(full, "proved", t=dt, info=info))
            return True
        if r == z3.sat:
            m = self.solver.model()
            self.ex.obligations.append(Obligation(full, "failed", model=m, t=dt, info=info, path=list(self.trace)))
            return False
        # unknown: try cvc5
        from pyvc import backends

        r2 = backends.cvc5_check(self.pc + [z3.Not(goal)], self.ex.timeout_ms)
        if r2 == "unsat":
            self.ex.obligations.append(Obligation(full, "proved", t=time.time() - t0, backend="cvc5", info=info))
            return True
        self.ex.obligations.append(
            Obligation(full, "undecided", t=time.time() - t0, info=f"z3={self.solver.reason_unknown()} cvc5={r2} {info or ''}")
        )
        return False

    def cover(self, name: str):
        """Reachability witness: the current point must be reachable (guards against vacuous proofs)."""
        r = self._check()
        ok = r == z3.sat or (r == z3.unknown and self.feasible())
        self.ex.cover_hits[name] = self.ex.cover_hits.get(name, 0) + (1 if ok else 0)
        return ok

    def _model(self):
        if self._check() == z3.sat:
            return self.solver.model()
        return None

    # -- comparisons returning python bool when concrete
    def _cmp(self, a, b, pyop, zop):
        a, b = strip(a), strip(b)
        if isinstance(a, int) and isinstance(b, int):
            return pyop(a, b)
        r = z3.simplify(zop(zint(a), zint(b)))
        if z3.is_true(r):
            return True
        if z3.is_false(r):
            return False
        return r

    def lt(self, a, b):
        return self._cmp(a, b, lambda x, y: x < y, lambda x, y: x < y)

    def le(self, a, b):
        return self._cmp(a, b, lambda x, y: x <= y, lambda x, y: x <= y)

    def eq(self, a, b):
        return self._cmp(a, b, lambda x, y: x == y, lambda x, y: x == y)

    def ne(self, a, b):
        return self._cmp(a, b, lambda x, y: x != y, lambda x, y: x != y)

    def raise_(self, cls, msg=""):
        raise PyRaise(cls, None, msg)

    # -- powers of two (math mode): uninterpreted pow2 with per-term facts
    def pow2(self, e):
        if isinstance(e, int):
            if e < 0:
                raise Unsupported("negative shift count")
            return 1 << e
        e = z3.simplify(zint(e))
        if z3.is_int_value(e):
            return self.pow2(e.as_long())
        # split a constant addend: pow2(s + c) = 2^c * pow2(s) for c >= 0
        base, c = _split_const(e)
        if c > 0 and base is not None:
            return (1 << c) * self.pow2(base)
        k = e.get_id()
        if k not in self._pow2_terms:
            t = pow2f(e)
            # facts for this term
            self.assume(z3.Implies(e >= 0, t >= 1))
            self.assume(z3.Implies(e == 0, t == 1))
            self.assume(z3.Implies(e >= 1, t >= 2))
            for (e2, t2) in list(self._pow2_terms.values()):
                # monotone and injective-on-order; multiplicative step facts when exponents differ by a constant
                self.assume(z3.Implies(e <= e2, t <= t2))
                self.assume(z3.Implies(e2 <= e, t2 <= t))
                self.assume(z3.Implies(e < e2, 2 * t <= t2))
                self.assume(z3.Implies(e2 < e, 2 * t2 <= t))
                d = z3.simplify(e - e2)
                if z3.is_int_value(d):
                    dv = d.as_long()
                    if dv >= 0:
                        self.assume(t == (1 << dv) * t2)
                    else:
                        self.assume(t2 == (1 << (-dv)) * t)
            self._pow2_terms[k] = (e, t)
        return self._pow2_terms[k][1]


def _split_const(e):
    """e == base + c with c a non-negative int constant (best effort on z3 linear sums)."""
    if z3.is_add(e):
        consts = [ch for ch in e.children() if z3.is_int_value(ch)]
        rest = [ch for ch in e.children() if not z3.is_int_value(ch)]
        c = sum(x.as_long() for x in consts)
        if c > 0 and rest:
            base = rest[0] if len(rest) == 1 else z3.Sum(*rest)
            return base, c
    return None, 0
