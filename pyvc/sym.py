"""Symbolic value domain of pyvc: integers (z3 Int, or z3 BitVec in bv mode), booleans, byte ropes,
opaque arrays/strings/floats, and the exact encodings of Python's integer operators.

Every rewrite that is only valid under a side condition (``a | b`` as ``a + b``) asks the solver to
prove that side condition first; if it cannot, the operation raises Unsupported and the obligation
becomes *undecided* - never a verdict.
"""
from __future__ import annotations

import z3

IntSort = z3.IntSort()
ByteSeq = z3.SeqSort(IntSort)
pow2f = z3.Function("pow2", IntSort, IntSort)  # uninterpreted; facts are added per term (see Ctx.pow2)


class Unsupported(Exception):
    """The engine cannot model a construct: the obligation is undecided."""


def is_z3(v) -> bool:
    return isinstance(v, z3.ExprRef)


def is_symint(v) -> bool:
    return isinstance(v, (z3.ArithRef, z3.BitVecRef))


def is_symbool(v) -> bool:
    return isinstance(v, z3.BoolRef)


def is_intlike(v) -> bool:
    return is_symint(v) or (isinstance(v, int) and not isinstance(v, bool)) or isinstance(v, bool)


def zint(v):
    """Python int / z3 Int -> z3 Int term."""
    if isinstance(v, bool):
        return z3.IntVal(int(v))
    if isinstance(v, int):
        return z3.IntVal(v)
    if isinstance(v, z3.ArithRef):
        return v
    if isinstance(v, z3.BoolRef):
        return z3.If(v, z3.IntVal(1), z3.IntVal(0))
    if isinstance(v, SEnum):
        return zint(v.value)
    if isinstance(v, SPtr):
        return zint(v.value)
    raise Unsupported(f"not an integer value: {type(v).__name__}")


def zbool(v):
    if isinstance(v, bool):
        return z3.BoolVal(v)
    if isinstance(v, z3.BoolRef):
        return v
    raise Unsupported(f"not a boolean value: {type(v).__name__}")


# ------------------------------------------------------------------------------------------------
# exact integer operators (mathematical integers)


def floordiv(a, b):
    """Python // on integers. z3 'div' is Euclidean (remainder >= 0); Python floors."""
    if isinstance(b, int):
        if b == 0:
            raise Unsupported("division by constant zero")
        if b > 0:
            return zint(a) / z3.IntVal(b)  # Euclidean == floor for positive divisor
        # b < 0: a // b == (-a) // (-b)
        return (-zint(a)) / z3.IntVal(-b)
    a, b = zint(a), zint(b)
    # general: floor(a/b). For b>0: a div b. For b<0: (-a) div (-b)
    return z3.If(b > 0, a / b, (-a) / (-b))


def floormod(a, b):
    if isinstance(b, int):
        if b == 0:
            raise Unsupported("modulo by constant zero")
        if b > 0:
            return zint(a) % z3.IntVal(b)
        return -((-zint(a)) % z3.IntVal(-b))
    a, b = zint(a), zint(b)
    return z3.If(b > 0, a % b, -((-a) % (-b)))


def _runs(mask: int):
    """Yield (lo, hi) bit runs of a non-negative mask: bits lo..hi-1 set."""
    i = 0
    while mask >> i:
        if (mask >> i) & 1:
            j = i
            while (mask >> j) & 1:
                j += 1
            yield i, j
            i = j
        else:
            i += 1


def and_const(x, mask: int):
    """x & mask for a concrete mask (exact for every integer x, two's complement semantics)."""
    x = zint(x)
    if mask >= 0:
        total = z3.IntVal(0)
        for lo, hi in _runs(mask):
            total = total + ((x / z3.IntVal(1 << lo)) % z3.IntVal(1 << (hi - lo))) * z3.IntVal(1 << lo)
        return z3.simplify(total)
    # negative mask: x & m == x - (x & ~m), ~m >= 0
    return x - and_const(x, ~mask)


def is_pow2_const(n: int) -> bool:
    return n > 0 and n & (n - 1) == 0


# ------------------------------------------------------------------------------------------------
# symbolic byte strings: a rope of single bytes and opaque sequence segments


class Seg:
    """An opaque run of bytes: z3 Seq(Int) term plus its length (int or z3 Int).

    When the run is a window of an input buffer, ``fn``/``off`` give element access as an uninterpreted
    function (byte i == fn(off + i)): this keeps byte terms small (no seq.nth case splits). The Seq view
    and the function view are two names for the same unknown input; they are only ever related through
    whole-segment identity, never mixed in one obligation without the explicit link (Ctx.link_seg).
    """

    __slots__ = ("seq", "n", "fn", "off", "tag")

    def __init__(self, seq, n, fn=None, off=0, tag=None):
        self.seq = seq
        self.n = n
        self.fn = fn
        self.off = off
        self.tag = tag  # e.g. ("leb", value, signed): this segment is the LEB128 encoding of value

    def at(self, i):
        """byte i of the segment (i: int or z3 Int)"""
        if self.fn is not None:
            idx = (self.off + i) if isinstance(self.off, int) and isinstance(i, int) else z3.simplify(zint(self.off) + zint(i))
            return self.fn(zint(idx))
        return self.seq[zint(i)]

    def window(self, lo, n):
        return Seg(z3.Extract(self.seq, zint(lo), zint(n)), n, self.fn,
                   (self.off + lo) if isinstance(self.off, int) and isinstance(lo, int) else z3.simplify(zint(self.off) + zint(lo)))


class SBytes:
    """Symbolic bytes/bytearray value. items: int | z3 Int (one byte) | Seg."""

    __slots__ = ("items", "_seq", "mutable")

    def __init__(self, items=(), mutable=False):
        self.items = list(items)
        self._seq = None
        self.mutable = mutable

    @staticmethod
    def of(v) -> "SBytes":
        if isinstance(v, SBytes):
            return v
        if isinstance(v, (bytes, bytearray, memoryview)):
            return SBytes(list(bytes(v)))
        raise Unsupported(f"not a bytes value: {type(v).__name__}")

    @staticmethod
    def fresh(name: str, n=None, ctx=None) -> "SBytes":
        seq = z3.Const(name, ByteSeq)
        ln = z3.Length(seq) if n is None else n
        sb = SBytes([Seg(seq, ln, z3.Function(name + "_at", IntSort, IntSort), 0)])
        if ctx is not None and n is not None:
            ctx.assume(z3.Length(seq) == zint(n))
        return sb

    def all_bytes(self) -> bool:
        return all(not isinstance(i, Seg) for i in self.items)

    def concrete(self):
        """bytes if fully concrete else None"""
        if all(isinstance(i, int) for i in self.items):
            return bytes(self.items)
        return None

    def length(self):
        n = 0
        for i in self.items:
            n = n + (i.n if isinstance(i, Seg) else 1)
        return z3.simplify(n) if is_z3(n) else n

    def seq(self):
        if self._seq is None or self.mutable:
            parts = []
            for i in self.items:
                parts.append(i.seq if isinstance(i, Seg) else z3.Unit(zint(i)))
            if not parts:
                s = z3.Empty(ByteSeq)
            elif len(parts) == 1:
                s = parts[0]
            else:
                s = z3.Concat(*parts)
            self._seq = s
        return self._seq

    def concat(self, other: "SBytes") -> "SBytes":
        return SBytes(self.items + SBytes.of(other).items)

    def byte_at(self, idx):
        """Byte at index idx (int or z3 Int), assuming 0 <= idx < len."""
        if isinstance(idx, int):
            k = 0
            for it in self.items:
                if isinstance(it, Seg):
                    if isinstance(it.n, int):
                        if idx < k + it.n:
                            return it.at(idx - k)
                        k += it.n
                        continue
                    if it is self.items[-1]:
                        return it.at(idx - k)
                    break
                if k == idx:
                    return it
                k += 1
        if len(self.items) == 1 and isinstance(self.items[0], Seg):
            return self.items[0].at(idx)
        return self.seq()[zint(idx)]

    def slice_concrete(self, lo: int, hi: int):
        """Slice with concrete bounds if the prefix up to hi has concrete structure, else None."""
        out = []
        k = 0
        for it in self.items:
            if k >= hi:
                break
            if isinstance(it, Seg):
                if not isinstance(it.n, int):
                    return None
                a, b = max(lo, k), min(hi, k + it.n)
                if a < b:
                    if a == k and b == k + it.n:
                        out.append(it)
                    else:
                        out.append(it.window(a - k, b - a))
                k += it.n
            else:
                if lo <= k < hi:
                    out.append(it)
                k += 1
        if k < hi:
            return None if not self.all_concrete_len() else SBytes(out)
        return SBytes(out)

    def all_concrete_len(self) -> bool:
        return all((not isinstance(i, Seg)) or isinstance(i.n, int) for i in self.items)

    def extract(self, lo, n) -> "SBytes":
        """self[lo:lo+n] assuming 0 <= lo and lo+n <= len (caller established)."""
        if isinstance(lo, int) and isinstance(n, int):
            r = self.slice_concrete(lo, lo + n)
            if r is not None and isinstance(r.length(), int) and r.length() == n:
                return r
            return SBytes([self.byte_at(lo + i) for i in range(n)]) if n <= 64 else SBytes(
                [Seg(z3.Extract(self.seq(), z3.IntVal(lo), z3.IntVal(n)), n)]
            )
        if len(self.items) == 1 and isinstance(self.items[0], Seg):
            seg = self.items[0]
            if isinstance(n, int) and n <= 64:
                return SBytes([seg.at(lo + i if isinstance(lo, int) else z3.simplify(zint(lo) + i)) for i in range(n)])
            return SBytes([seg.window(lo, n)])
        nav = self._navigate(lo, n)
        if nav is not None:
            return nav
        if isinstance(n, int) and n <= 64:
            return SBytes([self.seq()[zint(lo) + i] for i in range(n)])
        # rope navigation with symbolic offsets: find the item that starts exactly at lo (structurally)
        zl = z3.simplify(zint(lo))
        k = 0
        for idx, it in enumerate(self.items):
            zk = z3.simplify(zint(k))
            if z3.eq(zk, zl):
                if isinstance(n, int):
                    out = []
                    j = idx
                    while len(out) < n and j < len(self.items) and not isinstance(self.items[j], Seg):
                        out.append(self.items[j])
                        j += 1
                    if len(out) == n:
                        return SBytes(out)
                elif isinstance(it, Seg) and z3.eq(z3.simplify(zint(it.n)), z3.simplify(zint(n))):
                    return SBytes([it])
                break
            k = k + (it.n if isinstance(it, Seg) else 1)
        return SBytes([Seg(z3.Extract(self.seq(), zint(lo), zint(n)), n)])

    def item_at(self, lo):
        """The rope item that starts exactly at offset lo (structurally), or None."""
        zl = z3.simplify(zint(lo))
        k = 0
        for it in self.items:
            zk = z3.simplify(zint(k)) if not isinstance(k, int) else z3.IntVal(k)
            if z3.eq(zk, zl):
                return it
            k = k + (it.n if isinstance(it, Seg) else 1)
        return None

    def _navigate(self, lo, n):
        if len(self.items) <= 1:
            return None
        zl = z3.simplify(zint(lo))
        k = 0
        for idx, it in enumerate(self.items):
            zk = z3.simplify(zint(k)) if not isinstance(k, int) else z3.IntVal(k)
            if z3.eq(zk, zl):
                if isinstance(n, int):
                    out = []
                    j = idx
                    while len(out) < n and j < len(self.items) and not isinstance(self.items[j], Seg):
                        out.append(self.items[j])
                        j += 1
                    if len(out) == n:
                        return SBytes(out)
                elif isinstance(it, Seg) and z3.eq(z3.simplify(zint(it.n)), z3.simplify(zint(n))):
                    return SBytes([it])
                return None
            k = k + (it.n if isinstance(it, Seg) else 1)
        return None

    def eq(self, other) -> "z3.BoolRef | bool":
        other = SBytes.of(other)
        la, lb = self.length(), other.length()
        if isinstance(la, int) and isinstance(lb, int):
            if la != lb:
                return False
            if self.all_bytes() and other.all_bytes():
                cs = []
                for a, b in zip(self.items, other.items):
                    if isinstance(a, int) and isinstance(b, int):
                        if a != b:
                            return False
                    else:
                        cs.append(zint(a) == zint(b))
                return z3.And(*cs) if cs else True
        return self.seq() == other.seq()

    def __repr__(self):
        return f"SBytes({self.items!r})"


class SArr:
    """Opaque array value decoded from bytes by a fixed-width bijective codec (symbolic length).

    Identity of the value is (element type, raw bytes); len() is the element count.
    """

    __slots__ = ("etype", "raw", "count", "endian")

    def __init__(self, etype, raw: SBytes, count, endian):
        self.etype, self.raw, self.count, self.endian = etype, raw, count, endian


class SStr:
    """Opaque text decoded from UTF-16 code units (assumed well-formed); identity = code-unit bytes in
    the given byte order."""

    __slots__ = ("raw", "endian")

    def __init__(self, raw: SBytes, endian: str):
        self.raw, self.endian = raw, endian  # endian: 'le' | 'be'


class SFloat:
    """Opaque IEEE value: identity = its bit pattern as an unsigned integer (assumed not NaN)."""

    __slots__ = ("bits", "width")

    def __init__(self, bits, width):
        self.bits, self.width = bits, width


class SEnum:
    """Value of an enum/flag class with a symbolic underlying integer."""

    __slots__ = ("cls", "value")

    def __init__(self, cls, value):
        self.cls, self.value = cls, value


class SPtr:
    """Pointer instance with symbolic address."""

    def __init__(self, cls, value, stream, context):
        self.cls, self.value, self._stream, self._context, self._value = cls, value, stream, context, None


class STyped:
    """A symbolic integer tagged with the cstruct class it was constructed as (int24, uint8, ...)."""

    __slots__ = ("cls", "value")

    def __init__(self, cls, value):
        self.cls, self.value = cls, value


def strip(v):
    """Underlying integer term/py int of tagged ints."""
    if isinstance(v, (SEnum, SPtr, STyped)):
        return v.value
    return v


def deep_symbolic(v, depth=0) -> bool:
    """Does a value contain symbolic parts (so that a native call on it is not safe)?"""
    if is_z3(v) or isinstance(v, (SBytes, SArr, SStr, SFloat, SEnum, SPtr, STyped)):
        return True
    if type(v).__module__.startswith("pyvc.") or getattr(type(v), "_pyvc_model", False):
        return True  # any engine model object (streams, symbolic formats, markers, abstract lists of a loop contract)
    if depth > 3:
        return False
    if isinstance(v, (list, tuple, set, frozenset)):
        return any(deep_symbolic(x, depth + 1) for x in v)
    if isinstance(v, dict):
        return any(deep_symbolic(x, depth + 1) for x in v.values())
    return False
