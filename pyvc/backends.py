"""Second back end: cvc5 on the SMT-LIB export of a z3 query (asked only when z3 says unknown)."""
from __future__ import annotations

import os
import subprocess
import tempfile

import z3

CVC5 = "/usr/bin/cvc5"
stats = {"asked": 0, "unsat": 0, "sat": 0, "unknown": 0}


def cvc5_check(assertions, timeout_ms=10000) -> str:
    stats["asked"] += 1
    if not os.path.exists(CVC5):
        stats["unknown"] += 1
        return "unavailable"
    s = z3.Solver()
    for a in assertions:
        s.add(a)
    text = "(set-logic ALL)\n" + s.to_smt2()
    with tempfile.NamedTemporaryFile("w", suffix=".smt2", dir="/dev/shm", delete=False) as f:
        f.write(text)
        path = f.name
    try:
        p = subprocess.run(
            [CVC5, "--lang=smt2", "--strings-exp", f"--tlimit={timeout_ms}", path],
            capture_output=True,
            text=True,
            timeout=timeout_ms / 1000 + 5,
        )
        out = p.stdout.strip().splitlines()
        r = out[0] if out else "unknown"
    except Exception as e:  # timeout etc.
        r = f"unknown({type(e).__name__})"
    finally:
        os.unlink(path)
    if r not in ("sat", "unsat"):
        stats["unknown"] += 1
        return "unknown"
    stats[r] += 1
    return r
