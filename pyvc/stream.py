"""Stream models.

SymStream  -- io.BytesIO semantics over a symbolic byte rope and a symbolic position (trusted axioms,
              cross-checked against CPython's BytesIO by pyvc.crosscheck).
WeakStream -- the weak stream contract used for fault injection (C08): read(n) returns *any* byte
              string of length 0..n, or raises; nothing else is assumed.
"""
from __future__ import annotations

import z3

from pyvc.sym import SBytes, Seg, Unsupported, is_z3, zint, ByteSeq


def _add(a, b):
    if isinstance(a, int) and isinstance(b, int):
        return a + b
    return z3.simplify(zint(a) + zint(b))


def _sub(a, b):
    if isinstance(a, int) and isinstance(b, int):
        return a - b
    return z3.simplify(zint(a) - zint(b))


class _Log(list):
    """Ghost log of stream calls; each entry gets the qualname of the interpreted function that made it."""

    def __init__(self, ctx):
        super().__init__()
        self.ctx = ctx

    def append(self, entry):
        it = getattr(self.ctx, "interp", None)
        caller = it.callstack[-1] if it is not None and it.callstack else None
        super().append((*entry, caller))


class SymStream:
    _pyvc_model = True

    def __init__(self, ctx, data=None, pos=0, name="stream"):
        self.ctx = ctx
        self.data = SBytes.of(data) if data is not None else SBytes([])
        self.pos = pos
        self.name = name
        self.log = _Log(ctx)  # ghost: (kind, pos, requested, got, caller)

    # -- helpers
    def total(self):
        return self.data.length()

    def _constrain(self, sb: SBytes):
        for it in sb.items:
            if is_z3(it):
                self.ctx.assume_byte(it)

    # -- io API
    def tell(self):
        return self.pos

    def getvalue(self):
        return SBytes(list(self.data.items))

    def getbuffer(self):
        return self.getvalue()

    def seek(self, p, whence=0):
        from pyvc.sym import strip

        p = strip(p)
        ctx = self.ctx
        if whence == 0:
            if ctx.branch(ctx.lt(p, 0)):
                ctx.raise_(ValueError, "negative seek value")
            self.pos = p
        elif whence == 1:
            np_ = _add(self.pos, p)
            if ctx.branch(ctx.lt(np_, 0)):
                np_ = 0
            self.pos = np_
        elif whence == 2:
            np_ = _add(self.total(), p)
            if ctx.branch(ctx.lt(np_, 0)):
                np_ = 0
            self.pos = np_
        else:
            raise Unsupported("seek whence")
        return self.pos

    def read(self, n=-1):
        ctx = self.ctx
        total = self.total()
        start = self.pos
        if n is None or (isinstance(n, int) and n < 0):
            if ctx.branch(ctx.le(total, self.pos)):
                self.log.append(("read", start, n, 0))
                return SBytes([])
            ln = _sub(total, self.pos)
            r = self.data.extract(self.pos, ln)
            self.pos = total
            self._constrain(r)
            self.log.append(("read", start, n, ln))
            return r
        if not isinstance(n, int) and ctx.branch(ctx.lt(n, 0)):
            # negative symbolic count: read everything (BytesIO semantics)
            return self.read(-1)
        if isinstance(n, int) and n == 0:
            self.log.append(("read", start, 0, 0))
            return SBytes([])
        if not isinstance(n, int) and ctx.branch(ctx.eq(n, 0)):
            # read(0) returns b"" at any position, also beyond the end
            self.log.append(("read", start, 0, 0))
            return SBytes([])
        if ctx.branch(ctx.le(_add(self.pos, n), total)):
            r = self.data.extract(self.pos, n)
            self.pos = _add(self.pos, n)
            self._constrain(r)
            self.log.append(("read", start, n, n))
            return r
        # short read
        if ctx.branch(ctx.le(total, self.pos)):
            self.log.append(("read", start, n, 0))
            return SBytes([])
        ln = _sub(total, self.pos)
        r = self.data.extract(self.pos, ln)
        self.pos = total
        self._constrain(r)
        self.log.append(("read", start, n, ln))
        return r

    def write(self, b):
        ctx = self.ctx
        b = SBytes.of(b)
        n = b.length()
        total = self.total()
        if isinstance(n, int) and n == 0:
            return 0
        start = self.pos
        # append (the common case)
        at_end = ctx.eq(self.pos, total)
        if at_end is True or (at_end is not False and ctx.valid(at_end)):
            self.data = self.data.concat(b)
            self.pos = _add(self.pos, n)
            self.log.append(("write", start, n, n))
            return n
        if isinstance(self.pos, int) and isinstance(total, int) and isinstance(n, int) and self.data.all_concrete_len():
            items = list(self.data.slice_concrete(0, total).items) if not self.data.all_bytes() else list(self.data.items)
            if not all(not isinstance(i, Seg) for i in items):
                items = [self.data.byte_at(i) for i in range(total)]
            if self.pos > total:
                items += [0] * (self.pos - total)
            bi = b.items if b.all_bytes() else [b.byte_at(i) for i in range(n)]
            items[self.pos : self.pos + n] = bi
            self.data = SBytes(items)
            self.pos += n
            self.log.append(("write", start, n, n))
            return n
        # overwrite strictly inside, symbolic
        inside = ctx.le(_add(self.pos, n), total)
        if inside is True or (inside is not False and ctx.valid(inside)):
            head = self.data.extract(0, self.pos)
            tail_n = _sub(total, _add(self.pos, n))
            tail = self.data.extract(_add(self.pos, n), tail_n)
            self.data = head.concat(b).concat(tail)
            self.pos = _add(self.pos, n)
            self.log.append(("write", start, n, n))
            return n
        raise Unsupported("stream.write at a position that is neither the end nor provably inside")


class WeakStream:
    """read(n): returns any bytes of length 0..n (n >= 0) or raises OSError. Logs every call."""

    _pyvc_model = True

    def __init__(self, ctx, name="weak"):
        self.ctx = ctx
        self.name = name
        self.log = []  # (requested, got_len_term, raised)
        self.k = 0

    def read(self, n=-1):
        ctx = self.ctx
        self.k += 1
        fault = z3.Bool(f"{self.name}_fault{self.k}")
        if ctx.branch(fault):
            self.log.append((n, None, True))
            ctx.raise_(OSError, "injected stream fault")
        ln = z3.Int(f"{self.name}_len{self.k}")
        seq = z3.Const(f"{self.name}_data{self.k}", ByteSeq)
        ctx.assume(ln >= 0)
        ctx.assume(z3.Length(seq) == ln)
        if n is not None and not (isinstance(n, int) and n < 0):
            ctx.assume(ln <= zint(n))
        self.log.append((n, ln, False))
        # known concrete request: fork on exact delivery so that the result has concrete structure
        if isinstance(n, int) and 0 <= n <= 64:
            if ctx.branch(ln == n):
                items = [seq[z3.IntVal(i)] for i in range(n)]
                for it in items:
                    ctx.assume_byte(it)
                return SBytes(items)
            if ctx.branch(ln == 0):
                return SBytes([])
        return SBytes([Seg(seq, ln)])

    def tell(self):
        raise Unsupported("WeakStream.tell")

    def seek(self, *a):
        raise Unsupported("WeakStream.seek")
