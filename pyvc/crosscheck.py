"""CPython cross-check of the engine's own encodings (guards against an unsound verifier).

Every operator encoding and every builtin model is evaluated on concrete boundary and random values (the SMT
term is built exactly as in a proof, then evaluated with z3's simplifier on numerals) and compared with what
CPython computes. The stream model is driven with random operation sequences next to a real io.BytesIO. The
codec inverse laws applied structurally by the engine (dec(enc(x)) == x, enc(dec(b)) == b) are checked by the
solver for small widths and by evaluation for all widths. A disagreement is a *checker error* (exit 3).

Run at the start of every check (about a second)."""
from __future__ import annotations

import ast
import io
import random
import struct

import z3

from pyvc import models, sym
from pyvc.ctx import Ctx, Explorer, PyRaise
from pyvc.interp import Interp
from pyvc.stream import SymStream
from pyvc.sym import SBytes, SFloat

INTS = [0, 1, -1, 2, -2, 7, 8, 63, 64, 65, 127, 128, 129, 255, 256, -128, -129, -255, -256, 1 << 16, -(1 << 16), (1 << 32) - 1, 1 << 32,
        -(1 << 31), (1 << 63) - 1, -(1 << 63), 1 << 64, (1 << 128) - 1, -(1 << 127), 12345678901234567890]


def _val(t):
    if isinstance(t, (int, bool)):
        return t
    t = z3.simplify(t)
    if z3.is_int_value(t):
        return t.as_long()
    if z3.is_true(t):
        return True
    if z3.is_false(t):
        return False
    raise AssertionError(f"term did not evaluate to a numeral: {t}")


def _sym_of(v, name):
    """A z3 term equal to v that is *not* a numeral syntactically (so the symbolic code path is taken)."""
    x = z3.Int(name)
    return x, [(x, z3.IntVal(v))]


def _eval(term, subst):
    if isinstance(term, (int, bool)):
        return term
    return _val(z3.substitute(term, *subst))


def run(seed=0):
    errors = []
    rnd = random.Random(seed)
    ex = Explorer(name="crosscheck")
    ctx = Ctx(ex, [])
    it = Interp(ctx)
    values = INTS + [rnd.randrange(-(1 << 70), 1 << 70) for _ in range(30)]
    # --- floor division / modulo / shifts / and with constant, on symbolic left operand
    for a in values:
        xa, sa = _sym_of(a, "a")
        for b in [1, 2, 3, 7, 8, 128, 255, 256, 1000, -1, -2, -7, -128, 1 << 40]:
            for op, py in ((ast.FloorDiv, lambda x, y: x // y), (ast.Mod, lambda x, y: x % y)):
                got = _eval(models.binop(it, op(), xa, b), sa)
                if got != py(a, b):
                    errors.append(f"{a} {op.__name__} {b}: engine {got} python {py(a, b)}")
            xb, sb = _sym_of(b, "b")
            if b != 0:
                ctx2 = Ctx(ex, [])
                it2 = Interp(ctx2)
                ctx2.assume(xb != 0)
                for op, py in ((ast.FloorDiv, lambda x, y: x // y), (ast.Mod, lambda x, y: x % y)):
                    got = _eval(models.binop(it2, op(), xa, xb), sa + sb)
                    if got != py(a, b):
                        errors.append(f"{a} {op.__name__} sym({b}): engine {got} python {py(a, b)}")
        for k in (0, 1, 3, 7, 8, 31, 64):
            for op, py in ((ast.LShift, lambda x, y: x << y), (ast.RShift, lambda x, y: x >> y)):
                got = _eval(models.binop(it, op(), xa, k), sa)
                if got != py(a, k):
                    errors.append(f"{a} {op.__name__} {k}: engine {got} python {py(a, k)}")
        for m in (0, 1, 0x7F, 0x80, 0x40, 0xFF, 0x3C, 0xFFFF, 0xF0F0, -1, -2, -256, (1 << 64) - 1):
            got = _eval(sym.and_const(xa, m), sa)
            if got != (a & m):
                errors.append(f"{a} & {m}: engine {got} python {a & m}")
        got = _eval(-sym.zint(xa) - 1, sa)
        if got != ~a:
            errors.append(f"~{a}")
    # --- integer codecs (definitions of int.from_bytes / to_bytes / struct) against CPython
    for n in (1, 2, 3, 4, 6, 8, 16):
        for order in ("little", "big"):
            for signed in (False, True):
                for _ in range(12):
                    raw = bytes(rnd.randrange(256) for _ in range(n)) if _ else bytes([0x80] + [0] * (n - 1))
                    got = _val(models.dec_int(list(raw), order, signed))
                    want = int.from_bytes(raw, order, signed=signed)
                    if got != want:
                        errors.append(f"dec_int {raw.hex()} {order} {signed}: {got} vs {want}")
                    x, sx = _sym_of(want, "x")
                    enc = [_eval(t, sx) for t in models.enc_int(x, n, order)]
                    if bytes(enc) != raw:
                        errors.append(f"enc_int {want} {n} {order}: {bytes(enc).hex()} vs {raw.hex()}")
                    if _val(models.fits(want, n, signed)) is not True:
                        errors.append(f"fits({want},{n},{signed})")
                lo, hi = (-(1 << (8 * n - 1)), (1 << (8 * n - 1)) - 1) if signed else (0, (1 << (8 * n)) - 1)
                for v in (lo - 1, hi + 1):
                    x, sx = _sym_of(v, "x")
                    if _eval(models.fits(x, n, signed), sx) is not False:
                        errors.append(f"fits({v},{n},{signed}) should be false")
    # inverse laws applied structurally by the engine: solver-checked for small widths
    for n in (1, 2, 3):
        s = z3.Solver()
        bs = [z3.Int(f"b{i}") for i in range(n)]
        for b in bs:
            s.add(b >= 0, b <= 255)
        for order in ("little", "big"):
            for signed in (False, True):
                v = models.dec_int(bs, order, signed)
                back = models.enc_int(v, n, order)
                s.push()
                s.add(z3.Or(*[x != y for x, y in zip(back, bs)]))
                if s.check() != z3.unsat:
                    errors.append(f"enc(dec(b)) != b for n={n} {order} signed={signed}")
                s.pop()
    # --- struct model
    for fmt in ("<H", ">i", "<2Bx", ">qH", "!3xB", "<e", ">f", "<d", "<2H3xb"):
        st = struct.Struct(fmt)
        raw = bytes(rnd.randrange(256) for _ in range(st.size))
        if any(c in fmt for c in "efd"):
            raw = struct.pack(fmt, *[1.5] * (len(struct.unpack(fmt, raw))))
        got = models.m_struct_unpack(it, st, SBytes(list(raw)))
        want = st.unpack(raw)
        for g, w in zip(got, want):
            if isinstance(g, SFloat):
                back = models.m_struct_pack(it, struct.Struct(fmt[0] + {16: "e", 32: "f", 64: "d"}[g.width]), g)
                if bytes(back.items) != struct.pack(fmt[0] + {16: "e", 32: "f", 64: "d"}[g.width], w):
                    errors.append(f"struct float model {fmt}")
            elif _val(g) != w:
                errors.append(f"struct unpack {fmt}: {_val(g)} vs {w}")
        ints = [x for x in want if isinstance(x, int)]
        if len(ints) == len(want):
            back = models.m_struct_pack(it, st, *want)
            if bytes(_val(x) for x in back.items) != st.pack(*want):
                errors.append(f"struct pack {fmt}")
    # --- BytesIO model against CPython
    for trial in range(40):
        init = bytes(rnd.randrange(256) for _ in range(rnd.randrange(0, 12)))
        real = io.BytesIO(init)
        mod = SymStream(Ctx(ex, []), SBytes(list(init)), 0)
        for _ in range(rnd.randrange(1, 12)):
            op = rnd.choice(["read", "read", "seek", "seekcur", "write", "tell", "readall"])
            try:
                if op == "read":
                    n = rnd.randrange(0, 6)
                    a, b = real.read(n), mod.read(n)
                    if a != b.concrete():
                        errors.append(f"BytesIO.read({n}): {a!r} vs {b!r}")
                elif op == "readall":
                    a, b = real.read(), mod.read()
                    if a != b.concrete():
                        errors.append("BytesIO.read()")
                elif op == "seek":
                    n = rnd.randrange(0, 16)
                    if real.seek(n) != mod.seek(n):
                        errors.append("seek result")
                elif op == "seekcur":
                    n = rnd.randrange(-4, 5)
                    if real.seek(n, 1) != mod.seek(n, 1):
                        errors.append(f"seek({n},1)")
                elif op == "write":
                    w = bytes(rnd.randrange(256) for _ in range(rnd.randrange(0, 4)))
                    if real.write(w) != mod.write(w):
                        errors.append("write result")
                elif op == "tell" and real.tell() != mod.tell():
                    errors.append("tell")
            except PyRaise:
                errors.append("model raised where BytesIO did not")
            if real.getvalue() != mod.getvalue().concrete() or real.tell() != mod.tell():
                errors.append(f"BytesIO state after {op}: {real.getvalue()!r}@{real.tell()} vs {mod.getvalue().concrete()!r}@{mod.tell()}")
                break
    return errors


if __name__ == "__main__":
    e = run()
    print("crosscheck errors:", e[:10])
