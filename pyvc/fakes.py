"""Stand-ins for library objects in fully symbolic (T1) proofs: a type class with symbolic size, a Field record."""
from __future__ import annotations

from pyvc.ctx import PyRaise


class FakeType:
    """A cstruct type class as far as layout / bit-buffer code looks at it: .size (int term or None), ._read, ._write."""

    def __init__(self, name, size, reader=None, alignment=None):
        self.__name__ = name
        self.size = size
        self.alignment = alignment
        self._reader = reader
        self.written = []

    def _pyvc_len(self, interp):
        # MetaType.__len__: TypeError for dynamic types
        if self.size is None:
            raise PyRaise(TypeError, None, "Dynamic size")
        return self.size

    def _read(self, stream, context=None):
        return self._reader(stream)

    def _write(self, stream, data):
        self.written.append(data)
        return self.size

    _pyvc_model = True

    def __repr__(self):
        return f"<FakeType {self.__name__}>"


class FakeField:
    def __init__(self, name, type_, bits, offset, alignment):
        self.name = self._name = name
        self.type = type_
        self.bits = bits
        self.offset = offset
        self.alignment = alignment

    def __repr__(self):
        return f"<FakeField {self.name}>"
