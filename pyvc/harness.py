"""Case runner: a *case* is one function-under-contract in one finite configuration (class attributes,
endianness, program); its body drives the interpreter on symbolic data and states obligations.

Cases run in worker processes; results come back as plain dicts (z3 objects never cross processes).
"""
from __future__ import annotations

import hashlib
import importlib
import json
import os
import sys
import time
import traceback

import z3


def model_value(model, term):
    """Concrete python value of a z3 term under a model (with completion)."""
    v = model.eval(term, model_completion=True)
    if z3.is_int_value(v):
        return v.as_long()
    if z3.is_true(v):
        return True
    if z3.is_false(v):
        return False
    if z3.is_bv_value(v):
        return v.as_signed_long()
    return str(v)


def model_bytes(model, sb, maxlen=4096):
    """Concrete bytes of an SBytes under a model."""
    from pyvc.sym import SBytes, Seg

    out = bytearray()
    for it in sb.items:
        if isinstance(it, Seg):
            n = it.n if isinstance(it.n, int) else model_value(model, it.n)
            if not isinstance(n, int) or n < 0:
                n = 0
            n = min(n, maxlen)
            for i in range(n):
                b = model_value(model, it.at(i))
                out.append(b % 256 if isinstance(b, int) else 0)
        elif isinstance(it, int):
            out.append(it % 256)
        else:
            b = model_value(model, it)
            out.append(b % 256 if isinstance(b, int) else 0)
    return bytes(out)


class Case:
    """Base class. Subclasses define: name, functions (list of 'module:qualname'), body(ctx), and
    optionally inputs(ctx)->dict of symbols recorded for replay and native(inputs)->(ok, observed)."""

    name = "?"
    functions: list = []
    timeout_ms = 20000
    max_paths = 5000
    budget_s = 480  # wall clock per case; sized so that verdicts do not flip when all cores are busy (slowest quick case ~175 s alone)

    def body(self, ctx):
        raise NotImplementedError

    def native(self, inputs):
        return None  # no native replay available

    def describe(self):
        return self.name

    def concretise(self, model, obligation):
        """Model -> JSON-able dict of the symbolic inputs recorded by body() in ctx.case_inputs."""
        from pyvc.sym import SBytes

        out = {}
        for k, v in getattr(self, "_last_inputs", {}).items():
            if isinstance(v, SBytes):
                out[k] = model_bytes(model, v).hex()
            elif z3.is_expr(v):
                out[k] = model_value(model, v)
            else:
                out[k] = v
        return out


BRANCH_TIMEOUT_MS = 2000  # light (path feasibility) solver; "unknown" counts as feasible
RETRY_SCALE = 4  # solver and wall-clock budgets of a further attempt, relative to the first
RETRY_ATTEMPTS = 2  # further attempts for a case that a budget (not the engine's reach) left open
RETRY_MAX_CASES = 48  # per run_cases call: a tree on which everything times out is not re-run wholesale


def run_case(case: Case, attempt=0):
    """Run one case in this process: returns a plain dict. attempt > 0 is a further attempt at a case whose
    first run left an obligation open on a budget: same source text, same obligations, RETRY_SCALE times the
    solver/branch/wall-clock budgets and another solver seed (z3's sequence solver is not stable on identical
    input). More time and another seed cannot turn a false goal into a proved one."""
    from pyvc.ctx import Explorer
    from pyvc.interp import SOURCES

    t0 = time.time()
    # VERIF_BUDGET_SCALE multiplies every budget of every attempt (slower machine: > 1; < 1 emulates one, for testing)
    scale = (RETRY_SCALE if attempt else 1) * float(os.environ.get("VERIF_BUDGET_SCALE", "1") or 1)
    z3.set_param("smt.random_seed", attempt)
    ex = Explorer(timeout_ms=max(1, int(case.timeout_ms * scale)), max_paths=case.max_paths, name=case.name,
                  branch_timeout_ms=max(1, int(BRANCH_TIMEOUT_MS * scale)), budget_s=(case.budget_s * scale) if case.budget_s else None)
    recorded = {}

    def body(ctx):
        ctx.case_inputs = {}
        case._last_inputs = ctx.case_inputs
        case.body(ctx)

    err = None
    try:
        ex.explore(body)
    except Exception:  # noqa: BLE001 - checker crash, reported as such
        err = traceback.format_exc()
    obls = []
    failures = []
    for o in ex.obligations:
        d = o.as_dict()
        if o.status == "failed":
            inputs = None
            if o.model is not None:
                try:
                    inputs = case.concretise(o.model, o)
                except Exception:  # noqa: BLE001
                    inputs = {"error": traceback.format_exc(limit=2)}
            replay = None
            if o.concrete and not inputs:
                # the obligation was a concrete evaluation of the real code on this tree (no symbolic input involved):
                # evaluating it IS the native replay
                replay = {"reproduced": True, "observed": o.info, "note": "concrete evaluation of the real code"}
            elif inputs is not None and "error" not in inputs:
                try:
                    replay = case.native(inputs)
                except Exception:  # noqa: BLE001
                    replay = {"reproduced": None, "error": traceback.format_exc(limit=3)}
            if replay is None and o.concrete and not inputs:
                # the obligation was a concrete evaluation of the real code on this tree (no symbolic input involved):
                # evaluating it IS the native replay
                replay = {"reproduced": True, "observed": o.info, "note": "concrete evaluation of the real code"}
            failures.append({"obligation": o.name, "inputs": inputs, "replay": replay, "info": o.info,
                             "model": str(o.model)[:2000] if o.model is not None else None})
        obls.append(d)
    standin = None
    if (err or any(o.status == "undecided" for o in ex.obligations)) and hasattr(case, "standin"):
        # the deductive route left something open on this tree (a construct outside the engine's reach, a solver
        # timeout): a bounded native check of the same contract stands in. It can refute, never prove.
        try:
            standin = case.standin()
        except Exception:  # noqa: BLE001
            standin = {"name": f"standin:{case.name}", "bound": "crashed", "evaluations": 0, "failures": [], "error": traceback.format_exc(limit=4)}
    return {
        "standin": standin,
        "case": case.name,
        "functions": list(case.functions),
        "obligations": obls,
        "failures": failures,
        "paths": ex.paths,
        "queries": ex.queries,
        "solver_s": round(ex.solver_time, 3),
        "wall_s": round(time.time() - t0, 3),
        "undecided_reasons": ex.undecided_reasons[:5],
        "flags": sorted(ex.flags),
        "error": err,
        "sources": dict(SOURCES.used),
    }


def _worker(spec, attempt=0):
    mod, fn, args = spec
    m = importlib.import_module(mod)
    case = getattr(m, fn)(*args)
    return run_case(case, attempt)


def _open_on_budget(r):
    """Obligations of this result that a solver budget left open (timeout / unknown / canceled, unknown path
    feasibility). Not counted: 'unsupported' and 'max_paths' (the engine's reach, the same on every attempt), and a
    case that used up its whole wall-clock budget (known to be expensive, not unlucky: running it again with a larger
    budget would multiply the cost of the check; it stays reported as undecided and covered by its stand-in)."""
    if r is None or r.get("error"):
        return []
    if any(o["status"] == "undecided" and "case time budget exceeded" in str(o.get("info")) for o in r["obligations"]):
        return []
    return [o["name"] for o in r["obligations"]
            if o["status"] == "undecided" and not o["name"].endswith("/unsupported") and "max_paths" not in str(o.get("info"))]


def _n_undecided(r):
    return sum(1 for o in r["obligations"] if o["status"] == "undecided")


def _crash_result(spec, err):
    return {"case": str(spec), "functions": [], "obligations": [], "failures": [], "paths": 0, "queries": 0, "solver_s": 0, "wall_s": 0,
            "undecided_reasons": [], "flags": [], "error": err, "sources": {}}


def _child(conn, spec, attempt):
    try:
        r = _worker(spec, attempt)
    except BaseException:  # noqa: BLE001 - reported to the parent as a checker crash
        r = _crash_result(spec, traceback.format_exc())
    try:
        conn.send(r)
    finally:
        conn.close()


def _run_pool(specs, jobs, attempt=0):
    """One forked child per case, at most `jobs` at a time. A child starts from the parent's state (modules imported,
    no solver terms of any other case), so the solver sees the same input for a case whatever ran before it or next
    to it: which cases share a worker - a matter of scheduling - no longer reaches the solver's search."""
    import multiprocessing as mp
    from multiprocessing.connection import wait

    if os.environ.get("VERIF_INPROCESS"):  # debugging aid
        return [_worker(s, attempt) for s in specs]
    for mod in sorted({s[0] for s in specs}):
        try:
            importlib.import_module(mod)  # imported once here, inherited by every child
        except Exception:  # noqa: BLE001 - the child reports it per case
            pass
    mpc = mp.get_context("fork")
    out = [None] * len(specs)
    running = {}  # parent end of the pipe -> (index, process)
    nxt = 0
    while nxt < len(specs) or running:
        while nxt < len(specs) and len(running) < jobs:
            rd, wr = mpc.Pipe(duplex=False)
            pr = mpc.Process(target=_child, args=(wr, specs[nxt], attempt))
            pr.start()
            wr.close()
            running[rd] = (nxt, pr)
            nxt += 1
        for rd in wait(list(running)):
            i, pr = running.pop(rd)
            try:
                out[i] = rd.recv()
            except (EOFError, OSError):
                pr.join()
                out[i] = _crash_result(specs[i], f"worker process ended without a result (exit code {pr.exitcode})")
            rd.close()
            pr.join()
    return out


def run_cases(specs, jobs=None):
    """specs: list of (module, factory_name, args). Returns list of result dicts (order preserved).

    A case that a budget left open gets up to RETRY_ATTEMPTS further attempts after the pool has drained (fewer
    workers, RETRY_SCALE times the budgets, another solver seed). A further attempt replaces the earlier result only
    if it leaves fewer obligations open and reports every failure the earlier one reported; the attempts are recorded
    in the result ('attempts', 'first_attempt_open')."""
    jobs = jobs or int(os.environ.get("VERIF_JOBS", "0")) or min(16, os.cpu_count() or 4)
    out = _run_pool(specs, jobs)
    if os.environ.get("VERIF_NO_RETRY"):
        return out
    for attempt in range(1, RETRY_ATTEMPTS + 1):
        todo = [i for i, r in enumerate(out) if _open_on_budget(r)][:RETRY_MAX_CASES]
        if not todo:
            break
        again = _run_pool([specs[i] for i in todo], max(1, min(jobs // 2, len(todo))), attempt)
        for i, r2 in zip(todo, again):
            r1 = out[i]
            r1.setdefault("first_attempt_open", _open_on_budget(r1)[:5])
            r1["attempts"] = attempt + 1
            if r2.get("error"):
                continue
            if _n_undecided(r2) < _n_undecided(r1) and {f["obligation"] for f in r1["failures"]} <= {f["obligation"] for f in r2["failures"]}:
                r2["first_attempt_open"], r2["attempts"] = r1["first_attempt_open"], attempt + 1
                r2["wall_s"] = round(r2.get("wall_s", 0) + r1.get("wall_s", 0), 3)
                r2["solver_s"] = round(r2.get("solver_s", 0) + r1.get("solver_s", 0), 3)
                out[i] = r2
    return out
