"""Case runner: a *case* is one function-under-contract in one finite configuration (class attributes,
endianness, program); its body drives the interpreter on symbolic data and states obligations.

Cases run in worker processes; results come back as plain dicts (z3 objects never cross processes).
"""
from __future__ import annotations

import hashlib
import importlib
import json
import os
import sys
import time
import traceback
from concurrent.futures import ProcessPoolExecutor, as_completed

import z3


def model_value(model, term):
    """Concrete python value of a z3 term under a model (with completion)."""
    v = model.eval(term, model_completion=True)
    if z3.is_int_value(v):
        return v.as_long()
    if z3.is_true(v):
        return True
    if z3.is_false(v):
        return False
    if z3.is_bv_value(v):
        return v.as_signed_long()
    return str(v)


def model_bytes(model, sb, maxlen=4096):
    """Concrete bytes of an SBytes under a model."""
    from pyvc.sym import SBytes, Seg

    out = bytearray()
    for it in sb.items:
        if isinstance(it, Seg):
            n = it.n if isinstance(it.n, int) else model_value(model, it.n)
            if not isinstance(n, int) or n < 0:
                n = 0
            n = min(n, maxlen)
            for i in range(n):
                b = model_value(model, it.at(i))
                out.append(b % 256 if isinstance(b, int) else 0)
        elif isinstance(it, int):
            out.append(it % 256)
        else:
            b = model_value(model, it)
            out.append(b % 256 if isinstance(b, int) else 0)
    return bytes(out)


class Case:
    """Base class. Subclasses define: name, functions (list of 'module:qualname'), body(ctx), and
    optionally inputs(ctx)->dict of symbols recorded for replay and native(inputs)->(ok, observed)."""

    name = "?"
    functions: list = []
    timeout_ms = 20000
    max_paths = 5000
    budget_s = 480  # wall clock per case; sized so that verdicts do not flip when all cores are busy (slowest quick case ~175 s alone)

    def body(self, ctx):
        raise NotImplementedError

    def native(self, inputs):
        return None  # no native replay available

    def describe(self):
        return self.name

    def concretise(self, model, obligation):
        """Model -> JSON-able dict of the symbolic inputs recorded by body() in ctx.case_inputs."""
        from pyvc.sym import SBytes

        out = {}
        for k, v in getattr(self, "_last_inputs", {}).items():
            if isinstance(v, SBytes):
                out[k] = model_bytes(model, v).hex()
            elif z3.is_expr(v):
                out[k] = model_value(model, v)
            else:
                out[k] = v
        return out


def run_case(case: Case):
    """Run one case in this process: returns a plain dict."""
    from pyvc.ctx import Explorer
    from pyvc.interp import SOURCES

    t0 = time.time()
    ex = Explorer(timeout_ms=case.timeout_ms, max_paths=case.max_paths, name=case.name, budget_s=case.budget_s)
    recorded = {}

    def body(ctx):
        ctx.case_inputs = {}
        case._last_inputs = ctx.case_inputs
        case.body(ctx)

    err = None
    try:
        ex.explore(body)
    except Exception:  # noqa: BLE001 - checker crash, reported as such
        err = traceback.format_exc()
    obls = []
    failures = []
    for o in ex.obligations:
        d = o.as_dict()
        if o.status == "failed":
            inputs = None
            if o.model is not None:
                try:
                    inputs = case.concretise(o.model, o)
                except Exception:  # noqa: BLE001
                    inputs = {"error": traceback.format_exc(limit=2)}
            replay = None
            if o.concrete and not inputs:
                # the obligation was a concrete evaluation of the real code on this tree (no symbolic input involved):
                # evaluating it IS the native replay
                replay = {"reproduced": True, "observed": o.info, "note": "concrete evaluation of the real code"}
            elif inputs is not None and "error" not in inputs:
                try:
                    replay = case.native(inputs)
                except Exception:  # noqa: BLE001
                    replay = {"reproduced": None, "error": traceback.format_exc(limit=3)}
            if replay is None and o.concrete and not inputs:
                # the obligation was a concrete evaluation of the real code on this tree (no symbolic input involved):
                # evaluating it IS the native replay
                replay = {"reproduced": True, "observed": o.info, "note": "concrete evaluation of the real code"}
            failures.append({"obligation": o.name, "inputs": inputs, "replay": replay, "info": o.info,
                             "model": str(o.model)[:2000] if o.model is not None else None})
        obls.append(d)
    standin = None
    if (err or any(o.status == "undecided" for o in ex.obligations)) and hasattr(case, "standin"):
        # the deductive route left something open on this tree (a construct outside the engine's reach, a solver
        # timeout): a bounded native check of the same contract stands in. It can refute, never prove.
        try:
            standin = case.standin()
        except Exception:  # noqa: BLE001
            standin = {"name": f"standin:{case.name}", "bound": "crashed", "evaluations": 0, "failures": [], "error": traceback.format_exc(limit=4)}
    return {
        "standin": standin,
        "case": case.name,
        "functions": list(case.functions),
        "obligations": obls,
        "failures": failures,
        "paths": ex.paths,
        "queries": ex.queries,
        "solver_s": round(ex.solver_time, 3),
        "wall_s": round(time.time() - t0, 3),
        "undecided_reasons": ex.undecided_reasons[:5],
        "flags": sorted(ex.flags),
        "error": err,
        "sources": dict(SOURCES.used),
    }


def _worker(spec):
    mod, fn, args = spec
    m = importlib.import_module(mod)
    case = getattr(m, fn)(*args)
    return run_case(case)


def run_cases(specs, jobs=None):
    """specs: list of (module, factory_name, args). Returns list of result dicts (order preserved)."""
    jobs = jobs or int(os.environ.get("VERIF_JOBS", "0")) or min(16, os.cpu_count() or 4)
    if jobs == 1 or len(specs) <= 1:
        return [_worker(s) for s in specs]
    out = [None] * len(specs)
    with ProcessPoolExecutor(max_workers=jobs) as pool:
        futs = {pool.submit(_worker, s): i for i, s in enumerate(specs)}
        for f in as_completed(futs):
            i = futs[f]
            try:
                out[i] = f.result()
            except Exception:  # noqa: BLE001
                out[i] = {"case": str(specs[i]), "functions": [], "obligations": [], "failures": [], "paths": 0, "queries": 0,
                          "solver_s": 0, "wall_s": 0, "undecided_reasons": [], "flags": [], "error": traceback.format_exc(),
                          "sources": {}}
    return out
